(* An independent reader of the Prometheus text exposition format 0.0.4 (definitions only),
   written from the format description, NOT from src/encoder/text.rs:

   - the text is UTF-8; lines are separated by LF (only LF); the last line ends with LF;
     empty lines are ignored; tokens are separated by blanks (space / tab);
   - `# HELP <name> <doc>`: after the name exactly ONE blank is the separator and the rest of the
     line is the doc string verbatim, in which backslash-backslash stands for a backslash and
     backslash-n for LF (any other backslash is kept as is);  `# TYPE <name> <counter|gauge|histogram|summary|untyped>`;
     any other line starting with `#` is a comment;
   - a sample line is  name [ LBRACE [ lname = QUOTE value QUOTE { , lname = QUOTE value QUOTE } [,] ] RBRACE ] value [timestamp]
     with backslash-backslash, backslash-QUOTE and backslash-n the only escapes allowed inside a
     label value; the sample value is a float in the syntax of Go's ParseFloat (decimal with
     optional fraction and exponent, and the words inf / +Inf / -Inf / infinity / NaN in any
     case), the timestamp an int64;
   - HELP / TYPE lines open a family; the samples that follow belong to it as long as their name
     is the family name (counter, gauge, untyped), or name_bucket / name_sum / name_count
     (histogram), or name / name_sum / name_count (summary);
   - a histogram metric is read as: one or more name_bucket samples carrying an `le` label, at
     least one of them with le = +Inf, then name_sum, then name_count, all with the same remaining
     labels and the same timestamp; a summary metric as: zero or more `name` samples carrying a
     `quantile` label, then name_sum, then name_count.

   The result is the data model of the format: [VFamily].  [view] (at the end) maps the
   library's MetricFamily values into the same data model: that is what a faithful exposition
   must read back as. *)
From Coq Require Import String Ascii.
Require Import PV.Base.Prelude PV.Base.F64 PV.Base.Utf8 PV.Model.Proto.
Open Scope N_scope.

(* ------------------------------------------------------------------ data model of the format *)
Inductive VPayload :=
| VPValue (v : f64)                                                  (* counter / gauge / untyped *)
| VPHist (buckets : list (f64 * f64)) (sum count : f64)              (* (le, cumulative count) incl. +Inf *)
| VPSummary (quantiles : list (f64 * f64)) (sum count : f64).        (* (quantile, value) *)
Record VMetric := mkVM { vm_labels : list (str * str); vm_payload : VPayload; vm_ts : option Z }.
Record VFamily := mkVF { vf_name : str; vf_help : option str; vf_type : MetricType; vf_metrics : list VMetric }.

(* ------------------------------------------------------------------ characters *)
Definition lit (s : string) : str := List.map N_of_ascii (list_ascii_of_string s).

Definition c_lf : N := 10.
Definition c_tab : N := 9.
Definition c_space : N := 32.
Definition c_hash : N := 35.
Definition c_bslash : N := 92.
Definition c_dquote : N := 34.
Definition c_lbrace : N := 123.
Definition c_rbrace : N := 125.
Definition c_equals : N := 61.
Definition c_comma : N := 44.
Definition c_n : N := 110.

Definition is_blank (c : N) : bool := (c =? c_space) || (c =? c_tab).
Definition p_alpha (c : N) : bool := ((65 <=? c) && (c <=? 90)) || ((97 <=? c) && (c <=? 122)).
Definition p_digit (c : N) : bool := (48 <=? c) && (c <=? 57).
(* label names: [a-zA-Z_][a-zA-Z0-9_]*   metric names: [a-zA-Z_:][a-zA-Z0-9_:]* *)
Definition lname_char (c : N) : bool := p_alpha c || p_digit c || (c =? 95).
Definition mname_char (c : N) : bool := lname_char c || (c =? 58).
Definition p_valid_name (ch : N -> bool) (s : str) : bool :=
  match s with
  | [] => false
  | c :: _ => negb (p_digit c) && forallb ch s
  end.

Fixpoint skip_blanks (l : str) : str :=
  match l with
  | c :: r => if is_blank c then skip_blanks r else l
  | [] => []
  end.
Fixpoint span (p : N -> bool) (l : str) : str * str :=
  match l with
  | [] => ([], [])
  | c :: r => if p c then let '(a, b) := span p r in (c :: a, b) else ([], l)
  end.
(* a maximal run of non-blank characters *)
Definition token (l : str) : str * str := span (fun c => negb (is_blank c)) l.

(* ------------------------------------------------------------------ numbers *)
Definition digit_val (c : N) : option Z := if p_digit c then Some (Z.of_N (c - 48)) else None.
(* accumulates decimal digits: value, number of digits read, rest *)
Fixpoint read_digits (acc n : Z) (l : str) : Z * Z * str :=
  match l with
  | c :: r => match digit_val c with
              | Some d => read_digits (10 * acc + d) (n + 1) r
              | None => (acc, n, l)
              end
  | [] => (acc, n, [])
  end.

(* digits [ . digits ] [ (e|E) [+|-] digits ]  with at least one mantissa digit and nothing after.
   Result (m, e10, nd): the value is m * 10^e10, and m < 10^nd. *)
Definition parse_mantissa_exp (l : str) : option (Z * Z * Z) :=
  let '(m1, n1, r1) := read_digits 0 0 l in
  let '(m2, n2, r2) :=
    match r1 with
    | c :: r => if c =? 46 then read_digits m1 0 r else (m1, 0%Z, r1)
    | [] => (m1, 0%Z, [])
    end in
  if (n1 + n2 =? 0)%Z then None
  else match r2 with
       | [] => Some (m2, (- n2)%Z, (n1 + n2)%Z)
       | c :: r =>
           if (c =? 101) || (c =? 69) then
             let '(neg, r') :=
               match r with
               | s :: r' => if s =? 45 then (true, r') else if s =? 43 then (false, r') else (false, r)
               | [] => (false, [])
               end in
             let '(ev, en, r3) := read_digits 0 0 r' in
             if (en =? 0)%Z then None
             else match r3 with
                  | [] => Some (m2, ((if neg then - ev else ev) - n2)%Z, (n1 + n2)%Z)
                  | _ :: _ => None
                  end
           else None
       end.

(* the binary64 nearest to (-1)^neg * m * 10^e10, ties to even (exact: big-integer arithmetic;
   the quotient keeps >= 70 significant bits plus a sticky bit, so the final rounding by
   binary_normalize (to 53 bits, or fewer for subnormals) sees exactly which side of every
   rounding boundary the decimal lies on).  m < 10^nd is used only to cut off absurd exponents. *)
Definition decimal_to_sf (neg : bool) (m e10 nd : Z) : spec_float :=
  let sg (z : Z) := if neg then (- z)%Z else z in
  if (m =? 0)%Z then S754_zero neg
  else if (310 <? e10)%Z then S754_infinity neg
  else if (e10 + nd <? -330)%Z then S754_zero neg
  else if (0 <=? e10)%Z then binary_normalize prec emax (sg (m * 10 ^ e10)%Z) 0 false
  else
    let d := (10 ^ (- e10))%Z in
    let s := Z.max 0 (70 + Z.log2_up d - Z.log2 m) in
    let num := (m * 2 ^ s)%Z in
    let q := (num / d)%Z in
    let r := (num mod d)%Z in
    let q' := (2 * q + (if (r =? 0)%Z then 0 else 1))%Z in
    binary_normalize prec emax (sg q') (- (s + 1)) false.

Definition to_lower (c : N) : N := if (65 <=? c) && (c <=? 90) then c + 32 else c.
Fixpoint list_eqN (a b : list N) : bool :=
  match a, b with
  | [], [] => true
  | x :: a', y :: b' => (x =? y) && list_eqN a' b'
  | _, _ => false
  end.
Definition w_inf : str := Eval vm_compute in lit "inf".
Definition w_infinity : str := Eval vm_compute in lit "infinity".
Definition w_nan : str := Eval vm_compute in lit "nan".

(* a float word *)
Definition parse_float (l : str) : option f64 :=
  match l with
  | [] => None
  | c :: r =>
      let '(signed, neg, body) := if c =? 45 then (true, true, r) else if c =? 43 then (true, false, r) else (false, false, l) in
      let lower := List.map to_lower body in
      if list_eqN lower w_inf || list_eqN lower w_infinity then Some (if neg then neg_infinity else infinity)
      else if list_eqN lower w_nan then (if signed then None else Some nan)
      else match parse_mantissa_exp body with
           | Some (m, e10, nd) => Some (SF2Prim (decimal_to_sf neg m e10 nd))
           | None => None
           end
  end.

(* an int64 word *)
Definition parse_int (l : str) : option Z :=
  match l with
  | [] => None
  | c :: r =>
      let '(neg, body) := if c =? 45 then (true, r) else if c =? 43 then (false, r) else (false, l) in
      let '(v, n, rest) := read_digits 0 0 body in
      if (n =? 0)%Z then None
      else match rest with
           | _ :: _ => None
           | [] => let z := if neg then (- v)%Z else v in
                   if ((- 9223372036854775808 <=? z) && (z <=? 9223372036854775807))%Z then Some z else None
           end
  end.

(* ------------------------------------------------------------------ escapes *)
(* label value up to the closing quote; backslash + one of backslash, quote, n are the only escapes *)
Fixpoint read_quoted (l : str) : option (str * str) :=
  match l with
  | [] => None
  | c :: r =>
      if c =? c_dquote then Some ([], r)
      else if c =? c_bslash then
        match r with
        | [] => None
        | d :: r' =>
            let k := if d =? c_bslash then Some c_bslash
                     else if d =? c_n then Some c_lf
                     else if d =? c_dquote then Some c_dquote
                     else None in
            match k with
            | None => None
            | Some x => match read_quoted r' with Some (v, rest) => Some (x :: v, rest) | None => None end
            end
        end
      else match read_quoted r with Some (v, rest) => Some (c :: v, rest) | None => None end
  end.

(* doc string of a HELP line: \\ and \n; any other backslash is literal *)
Fixpoint unescape_help (l : str) : str :=
  match l with
  | [] => []
  | c :: r =>
      if c =? c_bslash then
        match r with
        | d :: r' => if d =? c_bslash then c_bslash :: unescape_help r'
                     else if d =? c_n then c_lf :: unescape_help r'
                     else c_bslash :: unescape_help r
        | [] => [c_bslash]
        end
      else c :: unescape_help r
  end.

(* ------------------------------------------------------------------ lines *)
Record PSample := mkPS { ps_name : str; ps_labels : list (str * str); ps_value : f64; ps_ts : option Z }.
Inductive PLine :=
| PLNone                                   (* empty line or comment *)
| PLHelp (name doc : str)
| PLType (name : str) (t : MetricType)
| PLSample (s : PSample).

(* after the opening brace or a comma: labels up to and including the closing brace *)
Fixpoint parse_labels (fuel : nat) (l : str) : option (list (str * str) * str) :=
  match fuel with
  | O => None
  | S f =>
      match skip_blanks l with
      | [] => None
      | c :: r =>
          if c =? c_rbrace then Some ([], r)
          else
            let '(nm, r1) := span lname_char (c :: r) in
            if negb (p_valid_name lname_char nm) then None
            else match skip_blanks r1 with
                 | e :: r2 =>
                     if negb (e =? c_equals) then None
                     else match skip_blanks r2 with
                          | q :: r3 =>
                              if negb (q =? c_dquote) then None
                              else match read_quoted r3 with
                                   | None => None
                                   | Some (v, r4) =>
                                       match skip_blanks r4 with
                                       | d :: r5 =>
                                           if d =? c_comma then
                                             match parse_labels f r5 with
                                             | Some (ls, r6) => Some ((nm, v) :: ls, r6)
                                             | None => None
                                             end
                                           else if d =? c_rbrace then Some ([(nm, v)], r5)
                                           else None
                                       | [] => None
                                       end
                                   end
                          | [] => None
                          end
                 | [] => None
                 end
      end
  end.

Definition parse_sample (l : str) : option PSample :=
  let '(nm, r) := span mname_char l in
  if negb (p_valid_name mname_char nm) then None
  else
    let labs :=
      match r with
      | [] => None
      | c :: r' =>
          if c =? c_lbrace then parse_labels (S (length r')) r'
          else if is_blank c then
            (* blanks may separate the name from the opening brace *)
            match skip_blanks r with
            | c2 :: r2 => if c2 =? c_lbrace then parse_labels (S (length r2)) r2 else Some ([], r)
            | [] => None
            end
          else None
      end in
    match labs with
    | None => None
    | Some (ls, r1) =>
        let '(v, r2) := token (skip_blanks r1) in
        match parse_float v with
        | None => None
        | Some x =>
            match skip_blanks r2 with
            | [] => Some (mkPS nm ls x None)
            | r3 =>
                let '(t, r4) := token r3 in
                match parse_int t with
                | None => None
                | Some z => match skip_blanks r4 with
                            | [] => Some (mkPS nm ls x (Some z))
                            | _ :: _ => None
                            end
                end
            end
        end
    end.

Definition kw_help : str := Eval vm_compute in lit "HELP".
Definition kw_type : str := Eval vm_compute in lit "TYPE".
Definition parse_type_word (w : str) : option MetricType :=
  if list_eqN w (lit "counter") then Some COUNTER
  else if list_eqN w (lit "gauge") then Some GAUGE
  else if list_eqN w (lit "histogram") then Some HISTOGRAM
  else if list_eqN w (lit "summary") then Some SUMMARY
  else if list_eqN w (lit "untyped") then Some UNTYPED
  else None.

Definition parse_line (l : str) : option PLine :=
  match skip_blanks l with
  | [] => Some PLNone
  | c :: r =>
      if c =? c_hash then
        let '(kw, r1) := token (skip_blanks r) in
        if list_eqN kw kw_help then
          let '(nm, r2) := token (skip_blanks r1) in
          if negb (p_valid_name mname_char nm) then None
          else match r2 with
               | [] => Some (PLHelp nm [])
               | _ :: doc => Some (PLHelp nm (unescape_help doc))      (* the one separating blank *)
               end
        else if list_eqN kw kw_type then
          let '(nm, r2) := token (skip_blanks r1) in
          if negb (p_valid_name mname_char nm) then None
          else
            let '(tw, r3) := token (skip_blanks r2) in
            match parse_type_word tw, skip_blanks r3 with
            | Some t, [] => Some (PLType nm t)
            | _, _ => None
            end
        else Some PLNone
      else match parse_sample (c :: r) with
           | Some s => Some (PLSample s)
           | None => None
           end
  end.

(* pieces between separators: n separators give n+1 pieces *)
Fixpoint split_on (sep : N) (l : str) : list str :=
  match l with
  | [] => [[]]
  | c :: r =>
      if c =? sep then [] :: split_on sep r
      else match split_on sep r with
           | p :: ps => (c :: p) :: ps
           | [] => [[c]]
           end
  end.
(* the lines of a text whose last line ends with LF (None otherwise) *)
Definition lines_of (text : str) : option (list str) :=
  let ps := split_on c_lf text in
  match rev ps with
  | [] :: front => Some (rev front)
  | _ => None
  end.

Fixpoint map_opt {A B} (f : A -> option B) (l : list A) : option (list B) :=
  match l with
  | [] => Some []
  | x :: r => match f x with
              | None => None
              | Some y => match map_opt f r with Some ys => Some (y :: ys) | None => None end
              end
  end.
Fixpoint ofold {S A} (f : S -> A -> option S) (s : S) (l : list A) : option S :=
  match l with
  | [] => Some s
  | a :: r => match f s a with Some s' => ofold f s' r | None => None end
  end.

(* ------------------------------------------------------------------ families *)
Definition sfx_bucket : str := Eval vm_compute in lit "_bucket".
Definition sfx_sum : str := Eval vm_compute in lit "_sum".
Definition sfx_count : str := Eval vm_compute in lit "_count".
Definition lbl_le : str := Eval vm_compute in lit "le".
Definition lbl_quantile : str := Eval vm_compute in lit "quantile".

(* a family as a run of lines: samples are kept in reverse order *)
Record RawGroup := mkRG { rg_name : str; rg_help : option str; rg_type : option MetricType; rg_rsamples : list PSample }.
Definition rg_eff_type (g : RawGroup) : MetricType := match rg_type g with Some t => t | None => UNTYPED end.

Definition belongs (g : RawGroup) (n : str) : bool :=
  match rg_eff_type g with
  | HISTOGRAM => list_eqN n (rg_name g ++ sfx_bucket) || list_eqN n (rg_name g ++ sfx_sum) || list_eqN n (rg_name g ++ sfx_count)
  | SUMMARY => list_eqN n (rg_name g) || list_eqN n (rg_name g ++ sfx_sum) || list_eqN n (rg_name g ++ sfx_count)
  | _ => list_eqN n (rg_name g)
  end.

(* state: finished groups (reversed) and the open group *)
Definition gstate := (list RawGroup * option RawGroup)%type.
Definition close_group (st : gstate) : list RawGroup :=
  match snd st with Some g => g :: fst st | None => fst st end.
Definition group_step (st : gstate) (pl : PLine) : option gstate :=
  match pl with
  | PLNone => Some st
  | PLHelp n d =>
      match snd st with
      | Some g =>
          if list_eqN n (rg_name g) && is_nil (rg_rsamples g) then
            match rg_help g with
            | None => Some (fst st, Some (mkRG (rg_name g) (Some d) (rg_type g) []))
            | Some _ => None                                     (* second HELP line *)
            end
          else Some (g :: fst st, Some (mkRG n (Some d) None []))
      | None => Some (fst st, Some (mkRG n (Some d) None []))
      end
  | PLType n t =>
      match snd st with
      | Some g =>
          if list_eqN n (rg_name g) && is_nil (rg_rsamples g) then
            match rg_type g with
            | None => Some (fst st, Some (mkRG (rg_name g) (rg_help g) (Some t) []))
            | Some _ => None                                     (* second TYPE line *)
            end
          else Some (g :: fst st, Some (mkRG n None (Some t) []))
      | None => Some (fst st, Some (mkRG n None (Some t) []))
      end
  | PLSample s =>
      match snd st with
      | Some g =>
          if belongs g (ps_name s) then Some (fst st, Some (mkRG (rg_name g) (rg_help g) (rg_type g) (s :: rg_rsamples g)))
          else Some (g :: fst st, Some (mkRG (ps_name s) None None [s]))
      | None => Some (fst st, Some (mkRG (ps_name s) None None [s]))
      end
  end.

Fixpoint labels_eqb (a b : list (str * str)) : bool :=
  match a, b with
  | [], [] => true
  | (n1, v1) :: a', (n2, v2) :: b' => list_eqN n1 n2 && list_eqN v1 v2 && labels_eqb a' b'
  | _, _ => false
  end.
Definition ots_eqb (a b : option Z) : bool :=
  match a, b with
  | None, None => true
  | Some x, Some y => (x =? y)%Z
  | _, _ => false
  end.
(* removes the first label called [n] *)
Fixpoint extract_label (n : str) (ls : list (str * str)) : option (str * list (str * str)) :=
  match ls with
  | [] => None
  | (k, v) :: r =>
      if list_eqN k n then Some (v, r)
      else match extract_label n r with Some (x, r') => Some (x, (k, v) :: r') | None => None end
  end.

(* the open histogram / summary metric: labels, timestamp, (key, value) samples so far (reversed), sum if seen *)
Record MCur := mkMC { mc_labels : list (str * str); mc_ts : option Z; mc_items : list (f64 * f64); mc_sum : option f64 }.
Definition mstate := (list VMetric * option MCur)%type.
Definition same_metric (c : MCur) (ls : list (str * str)) (ts : option Z) : bool :=
  labels_eqb ls (mc_labels c) && ots_eqb ts (mc_ts c).
Definition is_none {A} (o : option A) : bool := match o with None => true | Some _ => false end.
Definition has_pos_inf (items : list (f64 * f64)) : bool := existsb (fun kv => PrimFloat.eqb (fst kv) infinity) items.

(* a sample that carries the key label [lbl] (le / quantile) *)
Definition item_step (lbl : str) (st : mstate) (s : PSample) : option mstate :=
  match extract_label lbl (ps_labels s) with
  | None => None
  | Some (kv, rest) =>
      match parse_float kv with
      | None => None
      | Some k =>
          match snd st with
          | None => Some (fst st, Some (mkMC rest (ps_ts s) [(k, ps_value s)] None))
          | Some c =>
              if is_none (mc_sum c) && same_metric c rest (ps_ts s)
              then Some (fst st, Some (mkMC (mc_labels c) (mc_ts c) ((k, ps_value s) :: mc_items c) None))
              else None
          end
      end
  end.
Definition sum_step (need_item : bool) (st : mstate) (s : PSample) : option mstate :=
  match snd st with
  | None => if need_item then None else Some (fst st, Some (mkMC (ps_labels s) (ps_ts s) [] (Some (ps_value s))))
  | Some c =>
      if is_none (mc_sum c) && same_metric c (ps_labels s) (ps_ts s)
      then Some (fst st, Some (mkMC (mc_labels c) (mc_ts c) (mc_items c) (Some (ps_value s))))
      else None
  end.
Definition count_step (hist : bool) (st : mstate) (s : PSample) : option mstate :=
  match snd st with
  | None => None
  | Some c =>
      match mc_sum c with
      | None => None
      | Some sm =>
          if same_metric c (ps_labels s) (ps_ts s) && (negb hist || has_pos_inf (mc_items c))
          then Some (mkVM (mc_labels c)
                          (if hist then VPHist (rev (mc_items c)) sm (ps_value s) else VPSummary (rev (mc_items c)) sm (ps_value s))
                          (mc_ts c) :: fst st, None)
          else None
      end
  end.
Definition hist_step (name : str) (st : mstate) (s : PSample) : option mstate :=
  if list_eqN (ps_name s) (name ++ sfx_bucket) then item_step lbl_le st s
  else if list_eqN (ps_name s) (name ++ sfx_sum) then sum_step true st s
  else if list_eqN (ps_name s) (name ++ sfx_count) then count_step true st s
  else None.
Definition summary_step (name : str) (st : mstate) (s : PSample) : option mstate :=
  if list_eqN (ps_name s) (name ++ sfx_sum) then sum_step false st s
  else if list_eqN (ps_name s) (name ++ sfx_count) then count_step false st s
  else if list_eqN (ps_name s) name then item_step lbl_quantile st s
  else None.

Definition assemble_metrics (t : MetricType) (name : str) (samples : list PSample) : option (list VMetric) :=
  match t with
  | HISTOGRAM =>
      match ofold (hist_step name) ([], None) samples with
      | Some (ms, None) => Some (rev ms)
      | _ => None
      end
  | SUMMARY =>
      match ofold (summary_step name) ([], None) samples with
      | Some (ms, None) => Some (rev ms)
      | _ => None
      end
  | _ => map_opt (fun s => if list_eqN (ps_name s) name then Some (mkVM (ps_labels s) (VPValue (ps_value s)) (ps_ts s)) else None) samples
  end.
Definition assemble (g : RawGroup) : option VFamily :=
  match assemble_metrics (rg_eff_type g) (rg_name g) (rev (rg_rsamples g)) with
  | Some ms => Some (mkVF (rg_name g) (rg_help g) (rg_eff_type g) ms)
  | None => None
  end.

(* ------------------------------------------------------------------ the parser *)
Definition parse_plines (pls : list PLine) : option (list VFamily) :=
  match ofold group_step ([], None) pls with
  | Some st => map_opt assemble (rev (close_group st))
  | None => None
  end.
Definition parse_text (text : str) : option (list VFamily) :=
  match lines_of text with
  | None => None
  | Some ls => match map_opt parse_line ls with
               | Some pls => parse_plines pls
               | None => None
               end
  end.
(* strict UTF-8: the bytes must be exactly the encoding of the decoded scalar values *)
Definition decode_utf8 (bytes : list N) : option str :=
  match utf8_dec (length bytes) bytes with
  | Some s => if forallb scalarb s && list_eqN (utf8 s) bytes then Some s else None
  | None => None
  end.
Definition parse (bytes : list N) : option (list VFamily) :=
  match decode_utf8 bytes with
  | Some s => parse_text s
  | None => None
  end.

(* ------------------------------------------------------------------ the view of the library's families *)
Definition view_labels (ls : list LabelPair) : list (str * str) := List.map (fun l => (lp_name l, lp_value l)) ls.
Definition view_ts (m : Metric) : option Z := if (get_ts m =? 0)%Z then None else Some (get_ts m).
Definition view_hist (h : Histogram) : VPayload :=
  VPHist (List.map (fun b => (b_upper b, f_of_N (b_cum b))) (h_bucket h)
          ++ (if existsb (fun b => PrimFloat.eqb (b_upper b) infinity) (h_bucket h) then [] else [(infinity, f_of_N (h_count h))]))
         (h_sum h) (f_of_N (h_count h)).
Definition view_summary (s : Summary) : VPayload :=
  VPSummary (List.map (fun q => (q_quantile q, q_value q)) (s_quantile s)) (s_sum s) (f_of_N (s_count s)).
Definition view_metric (t : MetricType) (m : Metric) : VMetric :=
  mkVM (view_labels (m_label m))
       (match t with
        | COUNTER => VPValue (get_counter m)
        | GAUGE => VPValue (get_gauge m)
        | UNTYPED => VPValue (get_untyped m)
        | HISTOGRAM => view_hist (get_histogram m)
        | SUMMARY => view_summary (get_summary m)
        end)
       (view_ts m).
Definition view_family (f : MetricFamily) : VFamily :=
  mkVF (mf_name f) (if is_nil (mf_help f) then None else Some (mf_help f)) (mf_type f)
       (List.map (view_metric (mf_type f)) (mf_metric f)).
Definition view (fams : list MetricFamily) : list VFamily := List.map view_family fams.

(* ------------------------------------------------------------------ the contract of the number oracles *)
(* structural equality of floats (one NaN) *)
Definition sf_eqb (a b : spec_float) : bool :=
  match a, b with
  | S754_zero s, S754_zero s' => Bool.eqb s s'
  | S754_infinity s, S754_infinity s' => Bool.eqb s s'
  | S754_nan, S754_nan => true
  | S754_finite s m e, S754_finite s' m' e' => Bool.eqb s s' && Pos.eqb m m' && Z.eqb e e'
  | _, _ => false
  end.
Definition f64_same (x y : f64) : bool := sf_eqb (Prim2SF x) (Prim2SF y).
(* the characters a number token may consist of: [0-9a-zA-Z.+-] *)
Definition num_char (c : N) : bool := p_digit c || p_alpha c || (c =? 46) || (c =? 43) || (c =? 45).
(* [s] is an acceptable rendering of x: reads back as exactly x and is one token *)
Definition float_token_ok (x : f64) (s : str) : bool :=
  match parse_float s with Some y => f64_same y x | None => false end && forallb num_char s.
Definition int_token_ok (z : Z) (s : str) : bool :=
  match parse_int s with Some y => (y =? z)%Z | None => false end && forallb num_char s.

(* every number the encoder prints for these families *)
Definition metric_floats (t : MetricType) (m : Metric) : list f64 :=
  match t with
  | COUNTER => [get_counter m]
  | GAUGE => [get_gauge m]
  | HISTOGRAM =>
      let h := get_histogram m in
      flat_map (fun b => [b_upper b; f_of_N (b_cum b)]) (h_bucket h) ++ [f_of_N (h_count h); h_sum h]
  | SUMMARY =>
      let s := get_summary m in
      flat_map (fun q => [q_quantile q; q_value q]) (s_quantile s) ++ [s_sum s; f_of_N (s_count s)]
  | UNTYPED => []
  end.
Definition fams_floats (fams : list MetricFamily) : list f64 :=
  flat_map (fun f => flat_map (metric_floats (mf_type f)) (mf_metric f)) fams.
Definition fams_ints (fams : list MetricFamily) : list Z :=
  flat_map (fun f => flat_map (fun m => if (get_ts m =? 0)%Z then [] else [get_ts m]) (mf_metric f)) fams.
(* the contract, on every number of a list of families (a hypothesis of the round-trip theorem, and
   evaluated on every scenario of every run with the oracles instantiated by the harness's answers) *)
Definition numbers_ok (show : f64 -> str) (showz : Z -> str) (fams : list MetricFamily) : bool :=
  forallb (fun x => float_token_ok x (show x)) (fams_floats fams)
  && forallb (fun z => int_token_ok z (showz z)) (fams_ints fams).
