(* Executable statement of C19 on one compiled round: a declaration, the label-name order of
   the backing vector, the accessor calls made (each update with its own power of two), the
   try_get probes, and what the IMPLEMENTATION reported.  Written from the property text:
   every accessor path (fields, get(enum), try_get(str)) names one declared value per label;
   the child whose label values are exactly those strings received exactly the amounts of the
   paths naming it; every other child received nothing; try_get of an undeclared string is
   None.  The accessor trees of Model/Static.v are not used here. *)
Require Import PV.Base.Prelude PV.Model.Proto PV.Model.Value PV.Model.Static.
Open Scope N_scope.

(* the values declared for a label (an enum reference stands for the enum's list) *)
Definition sp_values (d : decl) (l : ldef) : option (list vdef * bool) :=
  match l_arm l with
  | LInline vs => Some (vs, false)
  | LEnum e => match find (fun x => str_eqb e (e_name x)) (rev (dc_enums d)) with
               | Some x => Some (e_vals x, true)
               | None => None
               end
  end.
(* the declared string an accessor call names at that label *)
Definition sp_step (d : decl) (l : ldef) (s : step) : option str :=
  match sp_values d l with
  | None => None
  | Some (vs, is_enum) =>
      match s with
      | SField id => option_map v_str (find (fun v => str_eqb id (v_id v)) vs)
      | SGet id => if is_enum then option_map v_str (find (fun v => str_eqb id (v_id v)) vs) else None
      | STry x => match dc_form d with
                  | FStatic => if existsb (fun v => str_eqb x (v_str v)) vs then Some x else None
                  | FAuto => None
                  end
      end
  end.
(* label name -> declared value along a complete path *)
Fixpoint sp_path (d : decl) (ls : list ldef) (p : list step) : option (list (str * str)) :=
  match ls, p with
  | [], [] => Some []
  | l :: ls', s :: p' => match sp_step d l s, sp_path d ls' p' with
                         | Some v, Some r => Some ((l_key l, v) :: r)
                         | _, _ => None
                         end
  | _, _ => None
  end.

Definition sp_updates (d : decl) (ops : list sop) : list (option (list (str * str)) * N) :=
  flat_map (fun o => match o with OUpd p x => [(sp_path d (dc_labels d) p, x)] | OFlush _ => [] end) ops.
Definition addresses (pairs : list (str * str)) (u : option (list (str * str)) * N) : bool :=
  match fst u with Some q => pairs_same q pairs | None => false end.
Definition sum_for (ups : list (option (list (str * str)) * N)) (pairs : list (str * str)) : N :=
  fold_right (fun u acc => (if addresses pairs u then snd u else 0) + acc) 0 ups.
Definition count_for (ups : list (option (list (str * str)) * N)) (pairs : list (str * str)) : N :=
  fold_right (fun u acc => (if addresses pairs u then 1 else 0) + acc) 0 ups.

(* is [x] a power of two *)
Definition pow2b (x : N) : bool := match x with Npos p => (fix f (q : positive) := match q with xH => true | xO r => f r | xI _ => false end) p | N0 => false end.
Fixpoint distinctN (l : list N) : bool := match l with [] => true | x :: t => negb (memN x t) && distinctN t end.

(* a probe: the struct reached by the prefix belongs to label number |prefix| *)
Definition sp_probe (d : decl) (pr : list step * str) (answer_is_none : bool) : bool :=
  match nth_error (dc_labels d) (length (fst pr)) with
  | None => true
  | Some l => match sp_values d l with
              | None => true
              | Some (vs, _) => Bool.eqb answer_is_none (negb (existsb (fun v => str_eqb (snd pr) (v_str v)) vs))
              end
  end.
Fixpoint probes_ok (d : decl) (prs : list (list step * str)) (ans : list bool) : bool :=
  match prs, ans with
  | [], [] => true
  | pr :: r, a :: t => sp_probe d pr a && probes_ok d r t
  | _, _ => false
  end.

(* applicable when every update path names declared values, the amounts are distinct powers of
   two and, for the local / auto-flush forms, the calls end with a flush of the whole struct *)
Definition sp_applicable (c : c19case) : bool :=
  let d := c_decl c in
  let ups := sp_updates d (c_ops c) in
  forallb (fun u => match fst u with Some _ => true | None => false end) ups
  && forallb (fun u => pow2b (snd u)) ups && distinctN (map snd ups)
  && (negb (is_local_metric (dc_type d))
      || match rev (c_ops c) with OFlush [] :: _ => true | _ => false end).

Definition spec_c19 (c : c19case) (o : implobs) : bool :=
  if negb (sp_applicable c) then true else
  match o with
  | None => false                       (* a well-formed declaration must build and not panic *)
  | Some (children, answers) =>
      let d := c_decl c in
      let ups := sp_updates d (c_ops c) in
      (* every child holds exactly the amounts of the paths that name its label values ... *)
      forallb (fun ch => match ch with (pairs, sum, cnt) =>
                 (sum =? sum_for ups pairs)
                 && (cnt =? (if is_histogram (dc_type d) then count_for ups pairs else 0))
               end) children
      (* ... the child named by a path exists (once) ... *)
      && forallb (fun u => match fst u with
                           | Some q => lenN (filter (fun ch => pairs_same q (fst (fst ch))) children) =? 1
                           | None => false
                           end) ups
      (* ... and try_get answers None exactly for undeclared strings *)
      && probes_ok d (c_probes c) answers
  end.
