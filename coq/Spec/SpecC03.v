(* Executable statement of C03 on a trace of the IMPLEMENTATION (call / return markers and returned
   values only), written from the property text.  The clauses about snapshots - growth of
   snapshots taken one after another, a flushed batch entirely in or entirely out, the quiescent
   snapshot describing exactly all observations - are those of Spec/SpecC02.spec_hist (one pass
   over the trace decodes every snapshot's set S from its sum of distinct powers of two).  Added
   here, in an independent pass:
   - get_sample_count / get_sample_sum, typed: a get_sample_count that ran alone after every other
     call had returned equals the number of observations of all observe / flush calls, a
     get_sample_sum that ran alone equals the sum of all their values;
   - every call returns: no thread hung, dead-locked, live-locked (a collector that spins for ever)
     or panicked, and at the end of the trace no call is pending. *)
Require Import PV.Base.Prelude PV.Base.F64 PV.Model.Conc PV.Model.HistExec PV.Spec.SpecC02.
From Coq Require Import ZArith Lia.
Open Scope Z_scope.

Record rst := { r_total : Z;                      (* sum of the values of all observe / flush calls invoked so far *)
                r_count : Z;                      (* number of observations of those calls *)
                r_pend : list nat;                (* threads with a call in progress *)
                r_rd : list (nat * (bool * bool));  (* pending reads: thread, (is get_sample_sum, ran alone so far) *)
                r_ncol : nat;                     (* collections that returned *)
                r_ok : bool }.

Definition rinit : rst := {| r_total := 0; r_count := 0; r_pend := []; r_rd := []; r_ncol := O; r_ok := true |}.

Definition spoil (t : nat) (l : list (nat * (bool * bool))) : list (nat * (bool * bool)) :=
  map (fun x => if Nat.eqb (fst x) t then x else (fst x, (fst (snd x), false))) l.

Definition rstep (s : rst) (e : event) : rst :=
  match e with
  | ECall t c =>
      let rd := spoil t (r_rd s) in
      let alone := is_nil (r_pend s) in
      let pend := t :: r_pend s in
      match c with
      | CObs b =>
          match z_of_bits b with
          | Some v => {| r_total := r_total s + v; r_count := r_count s + 1; r_pend := pend; r_rd := rd; r_ncol := r_ncol s; r_ok := r_ok s |}
          | None => {| r_total := r_total s; r_count := r_count s; r_pend := pend; r_rd := rd; r_ncol := r_ncol s; r_ok := false |}
          end
      | CBatch bs =>
          match zvals bs with
          | Some vs => {| r_total := fold_left Z.add vs (r_total s); r_count := r_count s + Z.of_nat (length vs); r_pend := pend; r_rd := rd;
                          r_ncol := r_ncol s; r_ok := r_ok s |}
          | None => {| r_total := r_total s; r_count := r_count s; r_pend := pend; r_rd := rd; r_ncol := r_ncol s; r_ok := false |}
          end
      | CSCount => {| r_total := r_total s; r_count := r_count s; r_pend := pend; r_rd := (t, (false, alone)) :: rd; r_ncol := r_ncol s; r_ok := r_ok s |}
      | CSSum => {| r_total := r_total s; r_count := r_count s; r_pend := pend; r_rd := (t, (true, alone)) :: rd; r_ncol := r_ncol s; r_ok := r_ok s |}
      | _ => {| r_total := r_total s; r_count := r_count s; r_pend := pend; r_rd := rd; r_ncol := r_ncol s; r_ok := r_ok s |}
      end
  | ERet t r =>
      let pend := remove_nat t (r_pend s) in
      let rd := filter (fun x => negb (Nat.eqb (fst x) t)) (r_rd s) in
      match r with
      | RVal b =>
          let ok :=
            match find (fun x => Nat.eqb (fst x) t) (r_rd s) with
            | Some (_, (false, true)) => Z.of_N b =? r_count s
            | Some (_, (true, true)) => match z_of_bits b with Some z => z =? r_total s | None => false end
            | Some (_, (_, false)) => true
            | None => false
            end in
          {| r_total := r_total s; r_count := r_count s; r_pend := pend; r_rd := rd; r_ncol := r_ncol s; r_ok := r_ok s && ok |}
      | RSnap _ _ _ =>
          {| r_total := r_total s; r_count := r_count s; r_pend := pend; r_rd := rd; r_ncol := S (r_ncol s); r_ok := r_ok s |}
      | _ => {| r_total := r_total s; r_count := r_count s; r_pend := pend; r_rd := rd; r_ncol := r_ncol s; r_ok := r_ok s |}
      end
  | EPanic _ | EStuck | EDeadlock | ELivelock | ENoHooks | EOther _ =>
      {| r_total := r_total s; r_count := r_count s; r_pend := r_pend s; r_rd := r_rd s; r_ncol := r_ncol s; r_ok := false |}
  | _ => s
  end.

Definition reads_and_returns_ok (es : list event) : bool :=
  let s := fold_left rstep es rinit in r_ok s && is_nil (r_pend s).

Definition spec_c03 (bounds : list Z) (es : list event) : bool :=
  spec_hist bounds es && reads_and_returns_ok es.

(* number of collections that returned (used by the driver's statistics) *)
Definition collections_returned (es : list event) : nat := r_ncol (fold_left rstep es rinit).
