(* Executable statement of C14 on a scenario and the observations the IMPLEMENTATION produced:

     Every sample in a family returned by gather() carries a value of the family's declared
     type (a counter family only counter samples, and so on), so that the encoders print each
     sample's real value, and the declared type of a family does not depend on registration
     order or hash seed.

   [spec_c14]: in every gathered family each sample has exactly the value field the encoders
   read for the family's type; gathers taken back to back on registries with the same prefix,
   labels and registered set declare the same type for every name.
   [known_c14]: the recorded finding - collectors of different kinds registered under one
   fully-qualified name in one registry (a Desc carries no type, so registration cannot refuse
   them) - delimited so that everything but the family type must still be right. *)
Require Export PV.Spec.SpecC07.
Require Import PV.Base.Prelude PV.Base.F64 PV.Model.Proto PV.Model.Desc PV.Model.Value PV.Model.Hist PV.Model.Vec
               PV.Model.Registry PV.Model.World.
Open Scope N_scope.

Definition present {A} (o : option A) : bool := match o with Some _ => true | None => false end.
(* the text and protobuf encoders read get_counter / get_gauge / get_histogram / get_summary /
   get_untyped according to the family type: that field must be the one the sample carries *)
Definition payload_ok (t : MetricType) (m : Metric) : bool :=
  let g := present (m_gauge m) in let c := present (m_counter m) in let s := present (m_summary m) in
  let u := present (m_untyped m) in let h := present (m_histogram m) in
  match t with
  | COUNTER => c && negb (g || s || u || h)
  | GAUGE => g && negb (c || s || u || h)
  | SUMMARY => s && negb (g || c || u || h)
  | UNTYPED => u && negb (g || c || s || h)
  | HISTOGRAM => h && negb (g || c || s || u)
  end.
Definition family_homogeneous (g : MetricFamily) : bool := forallb (payload_ok (mf_type g)) (mf_metric g).
Definition same_types (a b : list MetricFamily) : bool :=
  list_eqb (fun x y => str_eqb (mf_name x) (mf_name y) && mtype_eqb (mf_type x) (mf_type y)) a b.

Definition spec_c14 (ops : list op) (obs : list obs) : bool :=
  forallb (fun ob => match ob with OFams fams => forallb family_homogeneous fams | _ => true end) obs
  && walk (fun _ _ _ => true) same_types world0 [] [] ops obs.

Definition known_c14 (ops : list op) (obs : list obs) : bool := known_mixed_kinds ops obs.
