(* Executable statement of C04 on one scenario and the IMPLEMENTATION's answers.

   A scenario is a list of families plus two pre-filled buffers; the implementation was run
   five times: encode (empty Vec), encode (Vec = prefill_t), encode_utf8 (empty String),
   encode_utf8 (String = prefill_u), encode_to_string.

   Written from the property text:
   - the output of a successful run parses (independent parser, Model/TextParse.v) back to
     exactly the families: same order, names, help, types, label sets, values (bit-exact, one
     NaN), non-zero timestamps, histograms as cumulative buckets plus a +Inf bucket equal to
     the count, then _sum and _count  [parse out = Some (view fams)];
   - the number of lines is a function of the shape only (no help text or label value adds or
     removes a line);
   - the three entry points produce the same bytes and only append to their output;
   - Err exactly for families without metrics / without a name / of type UNTYPED; what was
     written before the failing family reads back as the families before it.
   The read-back clauses are claimed for families with valid metric and label names whose
   histogram (summary) metrics carry no label called le (quantile) of their own.  On Err the
   encoder may already have written the HELP / TYPE header of the failing family (UNTYPED is
   detected at its first metric): the read-back of the prefix is then claimed when that header
   is readable too (valid name, help made of scalar values). *)
Require Import PV.Base.Prelude PV.Base.F64 PV.Base.Utf8 PV.Model.Proto PV.Model.Desc PV.Model.Value PV.Model.Text PV.Model.TextParse.
Open Scope N_scope.

(* ---------------------------------------------------------------- equality on the format's data model *)
Definition ff_eqb (a b : f64 * f64) : bool := f64_same (fst a) (fst b) && f64_same (snd a) (snd b).
Definition payload_eqb (a b : VPayload) : bool :=
  match a, b with
  | VPValue x, VPValue y => f64_same x y
  | VPHist b1 s1 c1, VPHist b2 s2 c2 => list_eqb ff_eqb b1 b2 && f64_same s1 s2 && f64_same c1 c2
  | VPSummary q1 s1 c1, VPSummary q2 s2 c2 => list_eqb ff_eqb q1 q2 && f64_same s1 s2 && f64_same c1 c2
  | _, _ => false
  end.
Definition vmetric_eqb (a b : VMetric) : bool :=
  labels_eqb (vm_labels a) (vm_labels b) && payload_eqb (vm_payload a) (vm_payload b) && ots_eqb (vm_ts a) (vm_ts b).
Definition vfamily_eqb (a b : VFamily) : bool :=
  list_eqN (vf_name a) (vf_name b) && opt_eqb list_eqN (vf_help a) (vf_help b) && mtype_eqb (vf_type a) (vf_type b)
  && list_eqb vmetric_eqb (vf_metrics a) (vf_metrics b).
Definition vfams_eqb : list VFamily -> list VFamily -> bool := list_eqb vfamily_eqb.

(* ---------------------------------------------------------------- shape *)
Fixpoint count_lf (l : list N) : N :=
  match l with [] => 0 | c :: r => (if c =? 10 then 1 else 0) + count_lf r end.
Definition sumN (l : list N) : N := fold_right N.add 0 l.
Definition metric_shape_lines (t : MetricType) (m : Metric) : N :=
  match t with
  | COUNTER | GAUGE => 1
  | HISTOGRAM => lenN (h_bucket (get_histogram m))
                 + (if existsb (fun b => PrimFloat.eqb (b_upper b) infinity) (h_bucket (get_histogram m)) then 0 else 1) + 2
  | SUMMARY => lenN (s_quantile (get_summary m)) + 2
  | UNTYPED => 0
  end.
Definition family_shape_lines (f : MetricFamily) : N :=
  (if is_nil (mf_help f) then 0 else 1) + 1 + sumN (map (metric_shape_lines (mf_type f)) (mf_metric f)).
Definition shape_lines (fams : list MetricFamily) : N := sumN (map family_shape_lines fams).

(* ---------------------------------------------------------------- which families the read-back is claimed for *)
Definition reserved_label (t : MetricType) (n : str) : bool :=
  match t with
  | HISTOGRAM => str_eqb n k_le
  | SUMMARY => str_eqb n k_quantile
  | _ => false
  end.
Definition label_ok (t : MetricType) (l : LabelPair) : bool :=
  is_valid_label_name (lp_name l) && negb (reserved_label t (lp_name l)) && forallb scalarb (lp_value l).
Definition family_ok (f : MetricFamily) : bool :=
  is_valid_metric_name (mf_name f) && forallb scalarb (mf_help f)
  && forallb (fun m => forallb (label_ok (mf_type f)) (m_label m)) (mf_metric f).

Definition bad_family (f : MetricFamily) : bool :=
  is_nil (mf_metric f) || is_nil (mf_name f) || mtype_eqb (mf_type f) UNTYPED.
Fixpoint good_prefix (fams : list MetricFamily) : list MetricFamily :=
  match fams with
  | [] => []
  | f :: r => if bad_family f then [] else f :: good_prefix r
  end.

(* the failing family, and whether a header written for it can be read *)
Fixpoint first_bad (fams : list MetricFamily) : option MetricFamily :=
  match fams with
  | [] => None
  | f :: r => if bad_family f then Some f else first_bad r
  end.
Definition bad_header_ok (fams : list MetricFamily) : bool :=
  match first_bad fams with
  | Some f => is_nil (mf_metric f) || is_nil (mf_name f) || (is_valid_metric_name (mf_name f) && forallb scalarb (mf_help f))
  | None => true
  end.

(* ---------------------------------------------------------------- one run into an empty buffer *)
Definition spec_single (fams : list MetricFamily) (r : eres) : bool :=
  match r with
  | EPanic => false
  | EOk out =>
      negb (existsb bad_family fams)
      && (if forallb family_ok fams
          then match parse out with Some v => vfams_eqb v (view fams) | None => false end
               && (count_lf out =? shape_lines fams)
          else true)
  | EErr _ out =>
      existsb bad_family fams
      && (let g := good_prefix fams in
          if forallb family_ok g && bad_header_ok fams
          then match parse out with
               | Some v => vfams_eqb (firstn (length g) v) (view g)
               | None => false
               end
          else true)
  end.

(* ---------------------------------------------------------------- append-only, one function behind three entry points *)
Definition extends_by (prefill : list N) (r0 r : eres) : bool :=
  match r0, r with
  | EOk o0, EOk o => list_eqN o (prefill ++ o0)
  | EErr e0 o0, EErr e o => err_eqb e0 e && list_eqN o (prefill ++ o0)
  | _, _ => false
  end.
(* encode_to_string returns the String on success and nothing but the error otherwise *)
Definition string_of (r0 r : eres) : bool :=
  match r0, r with
  | EOk o0, EOk o => list_eqN o o0
  | EErr e0 _, EErr e o => err_eqb e0 e && is_nil o
  | _, _ => false
  end.

Record c04_case := mkCase {
  c_fams : list MetricFamily;
  c_prefill_t : list N;            (* arbitrary bytes, for encode into a Vec *)
  c_prefill_u : list N;            (* valid UTF-8, for encode_utf8 into a String *)
  c_text0 : eres; c_textp : eres; c_utf80 : eres; c_utf8p : eres; c_string : eres }.

Definition spec_c04 (c : c04_case) : bool :=
  spec_single (c_fams c) (c_text0 c)
  && extends_by (c_prefill_t c) (c_text0 c) (c_textp c)
  && extends_by [] (c_text0 c) (c_utf80 c)
  && extends_by (c_prefill_u c) (c_text0 c) (c_utf8p c)
  && string_of (c_text0 c) (c_string c).

(* ---------------------------------------------------------------- correspondence: model = implementation *)
Definition eres_eqb (a b : eres) : bool :=
  match a, b with
  | EOk x, EOk y => list_eqN x y
  | EErr e x, EErr e' y => err_eqb e e' && list_eqN x y
  | EPanic, EPanic => true
  | _, _ => false
  end.
Definition model_agrees (show : f64 -> str) (showz : Z -> str) (c : c04_case) : bool :=
  eres_eqb (encode show showz [] (c_fams c)) (c_text0 c)
  && eres_eqb (encode show showz (c_prefill_t c) (c_fams c)) (c_textp c)
  && eres_eqb (encode_utf8 show showz [] (c_fams c)) (c_utf80 c)
  && eres_eqb (encode_utf8 show showz (c_prefill_u c) (c_fams c)) (c_utf8p c)
  && eres_eqb (encode_to_string show showz (c_fams c)) (c_string c).

(* ---------------------------------------------------------------- the number oracles as lookup tables *)
Definition tab_show (tab : list (N * str)) (x : f64) : str :=
  match nlookup (f2bits x) tab with Some s => s | None => [] end.
Fixpoint zlookup (z : Z) (tab : list (Z * str)) : option str :=
  match tab with
  | [] => None
  | (k, v) :: t => if (z =? k)%Z then Some v else zlookup z t
  end.
Definition tab_showz (tab : list (Z * str)) (z : Z) : str :=
  match zlookup z tab with Some s => s | None => [] end.

(* the contract of the oracles, checked on every number of the scenario *)
Definition contract_ok (show : f64 -> str) (showz : Z -> str) (c : c04_case) : bool :=
  numbers_ok show showz (c_fams c).
