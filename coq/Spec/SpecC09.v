(* Executable statement of C09 on a history of API calls and the observations the
   IMPLEMENTATION returned for them.  Written from the property text:
   (a) a constructor returns Ok exactly when: the help text is non-empty, the fully-qualified name
       (namespace, subsystem and name joined by '_', empty parts dropped, nothing if the name is
       empty) matches [a-zA-Z_:][a-zA-Z0-9_:]*, every constant and variable label name matches
       [a-zA-Z_][a-zA-Z0-9_]*, no name occurs twice among constant and variable labels, and - for
       histograms and histogram vectors - no label is called le; Registry::new_custom returns Ok
       exactly when the prefix (if any) is a metric name and every common label name is a label name;
   (b) every family returned by gather() has a name in the first language and every sample has label
       names in the second language, pairwise distinct.
   Character classes are spelled out on code points here, independently of Model/Desc.v. *)
Require Import PV.Base.Prelude PV.Base.F64 PV.Model.Proto PV.Model.Desc PV.Model.Value PV.Model.Hist PV.Model.Vec
               PV.Model.Registry PV.Model.World.
Open Scope N_scope.

(* ---- the two regular languages ---- *)
Definition in_rng (lo hi c : N) : bool := (lo <=? c) && (c <=? hi).
Definition ch_letter (c : N) : bool := in_rng 65 90 c || in_rng 97 122 c.       (* A-Z a-z *)
Definition ch_digit (c : N) : bool := in_rng 48 57 c.                            (* 0-9 *)
Definition ch_us (c : N) : bool := c =? 95.                                      (* _ *)
Definition ch_colon (c : N) : bool := c =? 58.                                   (* : *)
Definition re_match (head tail : N -> bool) (s : str) : bool :=
  match s with [] => false | c :: r => head c && forallb tail r end.
(* [a-zA-Z_][a-zA-Z0-9_]* *)
Definition re_label : str -> bool :=
  re_match (fun c => ch_letter c || ch_us c) (fun c => ch_letter c || ch_digit c || ch_us c).
(* [a-zA-Z_:][a-zA-Z0-9_:]* *)
Definition re_metric : str -> bool :=
  re_match (fun c => ch_letter c || ch_us c || ch_colon c) (fun c => ch_letter c || ch_digit c || ch_us c || ch_colon c).

(* ---- the fully-qualified name ---- *)
Definition join_us (parts : list str) : str :=
  match parts with [] => [] | p :: r => p ++ flat_map (fun x => 95 :: x) r end.
Definition spec_fq (ns sub name : str) : str :=
  if is_nil name then [] else join_us (filter (fun s => negb (is_nil s)) [ns; sub] ++ [name]).
Definition spec_opts_fq (o : Opts) : str := spec_fq (o_namespace o) (o_subsystem o) (o_name o).

(* ---- acceptance conditions ---- *)
(* [ckeys]: the keys handed to HashMap::insert (a repeated key only overrides the value, so the
   key SET is what matters); [vars]: the variable label names in order *)
Definition names_accept (fq help : str) (ckeys vars : list str) : bool :=
  negb (is_nil help) && re_metric fq
  && forallb re_label ckeys && forallb re_label vars
  && nodup_str vars && forallb (fun v => negb (mem_str v ckeys)) vars.
Definition LE : str := [108; 101].
Definition no_le (ckeys vars : list str) : bool := negb (mem_str LE ckeys) && negb (mem_str LE vars).
Definition buckets_accept (bs : list f64) : bool :=
  match check_and_adjust_buckets bs with Some _ => true | None => false end.     (* C08 owns this condition *)
Definition registry_accept (prefix : option str) (labels : option (list (str * str))) : bool :=
  match prefix with Some p => re_metric p | None => true end
  && match labels with Some l => forallb re_label (map fst l) && negb (mem_str LE (map fst l)) | None => true end.
(* the reserved name le is refused as a registry-level common label as well: a common label is appended to every
   sample, including histogram samples, whose buckets are exposed with their own le label *)

Definition res_ok (r : result unit) : bool := match r with Ok _ => true | Err _ => false end.
Definition opts_accept_b (o : Opts) (vars : list str) : bool :=
  names_accept (spec_opts_fq o) (o_help o) (map fst (o_consts o)) vars.

(* (a) one constructor call and what it returned *)
Definition ctor_ok (x : op * obs) : bool :=
  match x with
  | (OpDesc fq help vars consts, ob) =>
      match ob with
      | ODesc r => Bool.eqb (match r with Some _ => true | None => false end) (names_accept fq help (map fst consts) vars)
      | _ => false
      end
  | (OpCounter _ o, ob) | (OpGauge _ o, ob) =>
      match ob with
      | ORes r => if is_nil (o_vars o) then Bool.eqb (res_ok r) (opts_accept_b o []) else true
      | _ => false
      end
  | (OpHistogram ho, ob) =>
      match ob with
      | ORes r =>
          let o := ho_common ho in
          if is_nil (o_vars o)
          then Bool.eqb (res_ok r) (opts_accept_b o [] && no_le (map fst (o_consts o)) [] && buckets_accept (ho_buckets ho))
          else true
      | _ => false
      end
  | (OpCounterVec _ o labels, ob) | (OpGaugeVec _ o labels, ob) =>
      match ob with
      | ORes r => Bool.eqb (res_ok r) (opts_accept_b o labels)
      | _ => false
      end
  | (OpHistVec ho labels, ob) =>
      match ob with
      | ORes r => let o := ho_common ho in Bool.eqb (res_ok r) (opts_accept_b o labels && no_le (map fst (o_consts o)) labels)
      | _ => false
      end
  | (OpRegistry prefix labels, ob) =>
      match ob with
      | ORes r => Bool.eqb (res_ok r) (registry_accept prefix labels)
      | _ => false
      end
  | (OpPulling name help _, ob) =>
      match ob with
      | ORes r => Bool.eqb (res_ok r) (names_accept name help [] [])
      | _ => false
      end
  | _ => true
  end.

(* (b) what gather() returned *)
Definition sample_ok (m : Metric) : bool :=
  let ns := map lp_name (m_label m) in forallb re_label ns && nodup_str ns
  (* "reject the reserved label name le on histograms": no sample that carries a histogram value has a label
     named le (its buckets are exposed with le) - registry-level common labels included *)
  && match m_histogram m with Some _ => negb (mem_str LE ns) | None => true end.
Definition family_ok (mf : MetricFamily) : bool := re_metric (mf_name mf) && forallb sample_ok (mf_metric mf).
Definition gather_ok (ob : obs) : bool := match ob with OFams fs => forallb family_ok fs | _ => true end.
(* a user-written collector can hand anything to gather: the property speaks of the library's own metrics *)
Definition uses_custom (o : op) : bool := match o with OpCustom _ _ => true | _ => false end.

Definition spec_c09 (ops : list op) (obs : list obs) : bool :=
  forallb ctor_ok (combine ops obs) && (existsb uses_custom ops || forallb gather_ok obs).
