(* Executable statement of C05 on a scenario and the observations the IMPLEMENTATION produced:

     Within one metric vector, two requests return handles to the same child exactly when their
     label values are equal position by position (for the map form: equal for every label name);
     the child exposes exactly those values under the declared label names together with the
     constant labels, and starts from zero.  This holds for counter, gauge and histogram vectors
     and for their local variants, whatever characters the values contain; requests with the
     wrong number or names of labels return an error and create nothing.

   Written from that text, not from the model: the reference is an abstract "map from label-value
   tuples to children" in which tuples are compared as lists of strings - no bytes, no hash, no
   key.  A child is a ledger entry (its tuple, whether the vector still exports it, the value it
   must show, the observations it must have absorbed).  Which child a handle denotes is never read
   off the implementation; it is observed through behaviour: every update made through a handle is
   booked on the ledger entry the property assigns to that handle, and every later read through
   any handle (get, sample_count, sample_sum) and every collect() of the vector must show exactly
   the booked amounts.  With updates that are distinct powers of two, two requests share a child
   in the implementation exactly when the sums say so.  collect() must expose one sample per
   exported child with the labels (declared names x requested values) ++ constant labels sorted by
   name, so an erroneous request that created something, or a child with foreign labels, shows.
   A fresh entry starts at zero / as the empty histogram.

   Auxiliary semantics needed to follow a history (not what the property is about, kept as the
   library documents them): remove_label_values / remove / reset end the export of a child (older
   handles keep denoting the detached child, a later request creates a new one); a local vector
   caches one child per tuple, buffers updates until flush, a local histogram flushes when dropped; a flushed batch
   of observations enters the child's sum as one addend (the locally accumulated sum).

   [spec_c05]  = the walk with tuples compared for equality.
   [known_c05] = the recorded finding C05-fnv-collision, delimited: the walk succeeds when tuples
   are identified by the FNV-1a-64 hash of the bytes the library hashes for them (utf8 of each value
   followed by 0xFF) instead of by equality, AND some request was served through the child of a
   textually different tuple.  Everything else - results, labels, start values, errors creating
   nothing, the local caches - must still be as the property demands. *)
Require Import PV.Base.Prelude PV.Base.Utf8 PV.Base.Fnv PV.Base.F64.
Require Import PV.Model.Proto PV.Model.Desc PV.Model.Value PV.Model.Hist PV.Model.Vec PV.Model.Registry PV.Model.World.
Open Scope N_scope.

(* ---------- the abstract vector ---------- *)
Inductive vkind := KCounter (k : numkind) | KGauge (k : numkind) | KHist.
Record vinfo := mkVI { vi_kind : vkind; vi_names : list str; vi_consts : list (str * str) }.
Record child := mkChild { c_vec : nat; c_tuple : list str; c_key : N; c_live : bool; c_val : numval; c_obs : list f64; c_sum : f64 }.
(* a local vector's cache entry: tuple, its key, child, buffered increment, buffered observations *)
Definition centry := (list str * N * nat * numval * list f64)%type.
Inductive sent := SNone | SVec (v : nat) | SChild (c : nat) | SLocal (v : nat) (cache : list centry).
Record st := mkSt { s_vecs : list vinfo; s_kids : list child; s_slots : list sent; s_flag : bool }.
Definition st0 : st := mkSt [] [] [] false.

Definition push (s : st) (e : sent) : st := mkSt (s_vecs s) (s_kids s) (s_slots s ++ [e]) (s_flag s).
Definition set_kids (s : st) (k : list child) : st := mkSt (s_vecs s) k (s_slots s) (s_flag s).
Definition set_slot (s : st) (i : nat) (e : sent) : st := mkSt (s_vecs s) (s_kids s) (list_set (s_slots s) i e) (s_flag s).
Definition raise (s : st) (b : bool) : st := mkSt (s_vecs s) (s_kids s) (s_slots s) (s_flag s || b).
Definition ent (s : st) (i : nat) : sent := nth i (s_slots s) SNone.
Definition new_vec (s : st) (ob : obs) (info : vinfo) : st :=
  match ob with
  | ORes (Ok _) => mkSt (s_vecs s ++ [info]) (s_kids s) (s_slots s ++ [SVec (length (s_vecs s))]) (s_flag s)
  | _ => push s SNone
  end.

Fixpoint upd_nth {A} (l : list A) (i : nat) (f : A -> A) : list A :=
  match l, i with
  | [], _ => []
  | x :: t, O => f x :: t
  | x :: t, S i' => x :: upd_nth t i' f
  end.

Definition tuple_eqb (a b : list str) : bool := list_eqb str_eqb a b.
Definition kind_zero (k : vkind) : numval := match k with KCounter n | KGauge n => num_zero n | KHist => VU 0 end.
Definition zero_like (v : numval) : numval := match v with VF _ => VF f_zero | VU _ => VU 0 | VI _ => VI 0%Z end.
Definition is_ok (ob : obs) : bool := match ob with ORes (Ok _) => true | _ => false end.
Definition is_err (ob : obs) : bool := match ob with ORes (Err _) => true | _ => false end.
Definition is_unit (ob : obs) : bool := match ob with OUnit => true | _ => false end.
Definition is_panic (ob : obs) : bool := match ob with OPanic => true | _ => false end.

(* ---------- the map form: HashMap<&str, V> built by successive inserts ---------- *)
Fixpoint last_binding (n : str) (kvs : list (str * str)) (acc : option str) : option str :=
  match kvs with
  | [] => acc
  | (k, v) :: r => last_binding n r (if str_eqb n k then Some v else acc)
  end.
Fixpoint distinct_keys (kvs : list (str * str)) (seen : list str) : nat :=
  match kvs with
  | [] => length seen
  | (k, _) :: r => if mem_str k seen then distinct_keys r seen else distinct_keys r (k :: seen)
  end.
Fixpoint read_all (names : list str) (kvs : list (str * str)) : option (list str) :=
  match names with
  | [] => Some []
  | n :: r => match last_binding n kvs None, read_all r kvs with
              | Some v, Some vs => Some (v :: vs)
              | _, _ => None
              end
  end.
(* the tuple a map request denotes: as many entries as declared names and a value for every declared name *)
Definition map_tuple (names : list str) (kvs : list (str * str)) : option (list str) :=
  if Nat.eqb (distinct_keys kvs []) (length names) then read_all names kvs else None.

Section Spec.
  (* when two tuples denote the same child: [key] is computed once per request and kept with the tuple *)
  Variable key : list str -> N.
  Variable same : list str * N -> list str * N -> bool.

  Fixpoint find_live (v : nat) (t : list str * N) (kids : list child) (i : nat) : option (nat * child) :=
    match kids with
    | [] => None
    | c :: r => if Nat.eqb (c_vec c) v && c_live c && same (c_tuple c, c_key c) t then Some (i, c) else find_live v t r (S i)
    end.
  (* lookup-or-create of the abstract vector; the flag records that a request was served by the child of a
     textually different tuple (impossible when [same] is equality) *)
  Definition request (s : st) (v : nat) (info : vinfo) (t : list str * N) : st * nat :=
    match find_live v t (s_kids s) O with
    | Some (i, c) => (raise s (negb (tuple_eqb (c_tuple c) (fst t))), i)
    | None => (set_kids s (s_kids s ++ [mkChild v (fst t) (snd t) true (kind_zero (vi_kind info)) [] f_zero]), length (s_kids s))
    end.
  Definition unexport (s : st) (v : nat) (t : list str * N) : option st :=
    match find_live v t (s_kids s) O with
    | Some (i, c) =>
        Some (raise (set_kids s (upd_nth (s_kids s) i (fun c => mkChild (c_vec c) (c_tuple c) (c_key c) false (c_val c) (c_obs c) (c_sum c))))
                    (negb (tuple_eqb (c_tuple c) (fst t))))
    | None => None
    end.

  (* ---------- what collect() of a vector must show ---------- *)
  Definition expected_labels (info : vinfo) (t : list str) : list LabelPair :=
    sort_by (fun a b => str_leb (lp_name a) (lp_name b))
            (map (fun nv => mkLP (fst nv) (snd nv)) (combine (vi_names info) t)
             ++ map (fun kv => mkLP (fst kv) (snd kv)) (vi_consts info)).
  Definition obs_sum (l : list f64) : f64 := fold_left (fun a x => (a + x)%float) l f_zero.
  Definition count_le (l : list f64) (b : f64) : N := N.of_nat (length (filter (fun v => PrimFloat.leb v b) l)).
  Definition metric_matches (info : vinfo) (c : child) (m : Metric) : bool :=
    list_eqb lp_eqb (expected_labels info (c_tuple c)) (m_label m)
    && match vi_kind info with
       | KCounter _ => match m_counter m, m_gauge m, m_histogram m with
                       | Some x, None, None => f64_eqb x (num_to_f64 (c_val c))
                       | _, _, _ => false
                       end
       | KGauge _ => match m_gauge m, m_counter m, m_histogram m with
                     | Some x, None, None => f64_eqb x (num_to_f64 (c_val c))
                     | _, _, _ => false
                     end
       | KHist => match m_histogram m, m_counter m, m_gauge m with
                  | Some h, None, None =>
                      (h_count h =? N.of_nat (length (c_obs c))) && f64_eqb (h_sum h) (c_sum c)
                      && forallb (fun b => b_cum b =? count_le (c_obs c) (b_upper b)) (h_bucket h)
                  | _, _, _ => false
                  end
       end.
  Fixpoint take_match (info : vinfo) (c : child) (ms : list Metric) : option (list Metric) :=
    match ms with
    | [] => None
    | m :: r => if metric_matches info c m then Some r
                else match take_match info c r with Some r' => Some (m :: r') | None => None end
    end.
  (* every exported child is shown by exactly one sample and there is no other sample *)
  Fixpoint all_shown (info : vinfo) (cs : list child) (ms : list Metric) : bool :=
    match cs with
    | [] => is_nil ms
    | c :: r => match take_match info c ms with Some ms' => all_shown info r ms' | None => false end
    end.
  Definition kind_mtype (k : vkind) : MetricType :=
    match k with KCounter _ => COUNTER | KGauge _ => GAUGE | KHist => HISTOGRAM end.
  Definition collect_ok (s : st) (v : nat) (info : vinfo) (ob : obs) : bool :=
    match ob with
    | OFamsU [f] =>
        mtype_eqb (mf_type f) (kind_mtype (vi_kind info))
        && all_shown info (filter (fun c => Nat.eqb (c_vec c) v && c_live c) (s_kids s)) (mf_metric f)
    | _ => false
    end.

  (* ---------- updates through handles ---------- *)
  Definition arith (o : op) (cur : numval) : numval :=
    let one := match cur with VF _ => VF f_one | VU _ => VU 1 | VI _ => VI 1%Z end in
    match o with
    | OpInc _ => num_add cur one
    | OpIncBy _ d | OpAdd _ d => num_add cur d
    | OpDec _ => num_sub cur one
    | OpSub _ d => num_sub cur d
    | OpSet _ x => x
    | _ => cur
    end.
  Definition on_child (s : st) (c : nat) (f : child -> child) : st := set_kids s (upd_nth (s_kids s) c f).
  Definition book_val (f : numval -> numval) (c : child) : child := mkChild (c_vec c) (c_tuple c) (c_key c) (c_live c) (f (c_val c)) (c_obs c) (c_sum c).
  (* a direct observation adds its value to the sum; a batch handed over by a local histogram adds its values and,
     as ONE addend, the sum the local histogram accumulated for them (float addition is not associative, so the
     order of additions is part of what a histogram shows; an empty batch changes nothing) *)
  Definition book_observe (x : f64) (c : child) : child :=
    mkChild (c_vec c) (c_tuple c) (c_key c) (c_live c) (c_val c) (c_obs c ++ [x]) (c_sum c + x)%float.
  Definition book_batch (xs : list f64) (c : child) : child :=
    match xs with
    | [] => c
    | _ => mkChild (c_vec c) (c_tuple c) (c_key c) (c_live c) (c_val c) (c_obs c ++ xs) (c_sum c + obs_sum xs)%float
    end.

  (* ---------- local vectors ---------- *)
  Fixpoint cache_find (t : list str * N) (cache : list centry) : option centry :=
    match cache with
    | [] => None
    | ((t', k', c, p, po) as e) :: r => if same (t', k') t then Some e else cache_find t r
    end.
  Fixpoint cache_update (t : list str * N) (f : centry -> centry) (cache : list centry) : list centry :=
    match cache with
    | [] => []
    | ((t', k', c, p, po) as e) :: r => if same (t', k') t then f e :: r else e :: cache_update t f r
    end.
  Fixpoint cache_remove (t : list str * N) (cache : list centry) : list centry :=
    match cache with
    | [] => []
    | ((t', k', c, p, po) as e) :: r => if same (t', k') t then cache_remove t r else e :: cache_remove t r
    end.
  Definition flush_entry (s : st) (e : centry) : st :=
    let '(_, _, c, p, po) := e in
    on_child s c (fun k => book_batch po (book_val (fun v => if num_is_zero p then v else num_add v p) k)).
  Definition flush_all (s : st) (cache : list centry) : st := fold_left flush_entry cache s.
  Definition cleared (cache : list centry) : list centry :=
    map (fun e : centry => let '(t, k, c, p, po) := e in (t, k, c, zero_like p, @nil f64)) cache.
  (* serve a tuple from the cache or, on a miss, from the vector; then buffer the update *)
  Definition local_update (s : st) (sl v : nat) (info : vinfo) (cache : list centry) (t : list str * N)
                          (f : centry -> centry) : st :=
    match cache_find t cache with
    | Some (t', _, _, _, _) => raise (set_slot s sl (SLocal v (cache_update t f cache))) (negb (tuple_eqb t' (fst t)))
    | None => let '(s', c) := request s v info t in
              set_slot s' sl (SLocal v (cache ++ [f (fst t, snd t, c, kind_zero (vi_kind info), [])]))
    end.
  Definition keyed (t : list str) : list str * N := (t, key t).

  Definition card_ok (info : vinfo) (vals : list str) : bool := Nat.eqb (length vals) (length (vi_names info)).

  (* one call: None = the implementation's answer contradicts the property *)
  Definition sstep (s : st) (o : op) (ob : obs) : option st :=
    let with_tuple (v : nat) (info : vinfo) (t : option (list str)) : option st :=
      match t with
      | Some t => if is_ok ob then let '(s', c) := request s v info (keyed t) in Some (push s' (SChild c)) else None
      | None => if is_err ob then Some (push s SNone) else None       (* an error, and nothing is created *)
      end in
    let remove_tuple (s0 : st) (v : nat) (t : option (list str)) : option st :=
      match t with
      | Some t => match unexport s0 v (keyed t) with
                  | Some s' => if is_ok ob then Some s' else None
                  | None => if is_err ob then Some s0 else None
                  end
      | None => if is_err ob then Some s0 else None
      end in
    let vec_of (sl : nat) : option (nat * vinfo) :=
      match ent s sl with
      | SVec v => match nth_error (s_vecs s) v with Some info => Some (v, info) | None => None end
      | _ => None
      end in
    let local_of (sl : nat) : option (nat * vinfo * list centry) :=
      match ent s sl with
      | SLocal v cache => match nth_error (s_vecs s) v with Some info => Some (v, info, cache) | None => None end
      | _ => None
      end in
    match o with
    | OpCounterVec k o' labels => Some (new_vec s ob (mkVI (KCounter k) labels (o_consts o')))
    | OpGaugeVec k o' labels => Some (new_vec s ob (mkVI (KGauge k) labels (o_consts o')))
    | OpHistVec ho labels => Some (new_vec s ob (mkVI KHist labels (o_consts (ho_common ho))))
    | OpWith sl vals =>
        match vec_of sl with
        | Some (v, info) => with_tuple v info (if card_ok info vals then Some vals else None)
        | None => Some (push s SNone)
        end
    | OpWithMap sl kvs =>
        match vec_of sl with
        | Some (v, info) => with_tuple v info (map_tuple (vi_names info) kvs)
        | None => Some (push s SNone)
        end
    | OpRemove sl vals =>
        match vec_of sl with
        | Some (v, info) => remove_tuple s v (if card_ok info vals then Some vals else None)
        | None => Some s
        end
    | OpRemoveMap sl kvs =>
        match vec_of sl with
        | Some (v, info) => remove_tuple s v (map_tuple (vi_names info) kvs)
        | None => Some s
        end
    | OpReset sl =>
        match ent s sl with
        | SVec v => if is_unit ob
                    then Some (set_kids s (map (fun c => if Nat.eqb (c_vec c) v
                                                         then mkChild (c_vec c) (c_tuple c) (c_key c) false (c_val c) (c_obs c) (c_sum c) else c) (s_kids s)))
                    else None
        | SChild c => if is_unit ob then Some (on_child s c (book_val zero_like)) else None
        | _ => Some s
        end
    | OpInc sl | OpIncBy sl _ | OpDec sl | OpAdd sl _ | OpSub sl _ | OpSet sl _ =>
        match ent s sl with
        | SChild c => if is_unit ob then Some (on_child s c (book_val (arith o))) else None
        | _ => Some s
        end
    | OpGet sl =>
        match ent s sl with
        | SChild c => match nth_error (s_kids s) c, ob with
                      | Some k, ONum x => if numval_eqb x (c_val k) then Some s else None
                      | _, _ => None
                      end
        | _ => Some s
        end
    | OpObserve sl x =>
        match ent s sl with
        | SChild c => if is_unit ob then Some (on_child s c (book_observe x)) else None
        | _ => Some s
        end
    | OpSampleCount sl =>
        match ent s sl with
        | SChild c => match nth_error (s_kids s) c, ob with
                      | Some k, ON n => if n =? N.of_nat (length (c_obs k)) then Some s else None
                      | _, _ => None
                      end
        | _ => Some s
        end
    | OpSampleSum sl =>
        match ent s sl with
        | SChild c => match nth_error (s_kids s) c, ob with
                      | Some k, OF64 x => if f64_eqb x (c_sum k) then Some s else None
                      | _, _ => None
                      end
        | _ => Some s
        end
    | OpLocal sl =>
        match ent s sl with
        | SVec v => Some (push s (SLocal v []))
        | _ => Some (push s SNone)
        end
    | OpClone sl =>
        match ent s sl with
        | SLocal v _ => Some (push s (SLocal v []))
        | e => Some (push s e)
        end
    | OpLvInc sl vals d =>
        match local_of sl with
        | Some (v, info, cache) =>
            if card_ok info vals
            then if is_unit ob
                 then Some (local_update s sl v info cache (keyed vals)
                              (fun e : centry => let '(t, k, c, p, po) := e in (t, k, c, num_add p d, po)))
                 else None
            else if is_panic ob then Some s else None     (* the unwrapping API has no other way to refuse *)
        | None => Some s
        end
    | OpLvObserve sl vals x =>
        match local_of sl with
        | Some (v, info, cache) =>
            if card_ok info vals
            then if is_unit ob
                 then Some (local_update s sl v info cache (keyed vals)
                              (fun e : centry => let '(t, k, c, p, po) := e in (t, k, c, p, po ++ [x])))
                 else None
            else if is_panic ob then Some s else None
        | None => Some s
        end
    | OpFlush sl =>
        match ent s sl with
        | SLocal v cache => if is_unit ob then Some (set_slot (flush_all s cache) sl (SLocal v (cleared cache))) else None
        | _ => Some s
        end
    | OpDrop sl =>
        match local_of sl with
        | Some (v, info, cache) =>
            Some (set_slot (match vi_kind info with KHist => flush_all s cache | _ => s end) sl SNone)
        | None => Some (set_slot s sl SNone)
        end
    | OpLvRemove sl vals =>
        match local_of sl with
        | Some (v, info, cache) =>
            if card_ok info vals
            then let kv := keyed vals in
                 let s1 := match cache_find kv cache, vi_kind info with
                           | Some e, KHist => flush_entry s e
                           | _, _ => s
                           end in
                 let s2 := raise (set_slot s1 sl (SLocal v (cache_remove kv cache)))
                                 (match cache_find kv cache with
                                  | Some (t', _, _, _, _) => negb (tuple_eqb t' vals)
                                  | None => false
                                  end) in
                 remove_tuple s2 v (Some vals)
            else if is_err ob then Some s else None
        | None => Some s
        end
    | OpCollect sl =>
        match vec_of sl with
        | Some (v, info) => if collect_ok s v info ob then Some s else None
        | None => Some s
        end
    | OpCounter _ _ | OpGauge _ _ | OpHistogram _ | OpTimer _ | OpRegistry _ _ | OpCustom _ _ | OpPulling _ _ _ =>
        Some (push s SNone)
    | _ => Some s
    end.

  (* Some flag = every answer agrees with the property; flag = some request was served through the child of a
     textually different tuple *)
  Fixpoint walk (s : st) (ops : list op) (obs : list obs) : option bool :=
    match ops, obs with
    | [], [] => Some (s_flag s)
    | o :: ops', ob :: obs' => match sstep s o ob with Some s' => walk s' ops' obs' | None => None end
    | _, _ => None
    end.
End Spec.

Definition spec_c05 (ops : list op) (obs : list obs) : bool :=
  match walk (fun _ => 0) (fun a b => tuple_eqb (fst a) (fst b)) st0 ops obs with Some _ => true | None => false end.

(* ---------- the known class: different tuples, equal FNV-1a-64 of the hashed bytes ---------- *)
Definition hashed_bytes (t : list str) : list N := label_values_preimage t.
Definition hash_key (t : list str) : N := fnv1a (hashed_bytes t).
Definition known_c05 (ops : list op) (obs : list obs) : bool :=
  match walk hash_key (fun a b => snd a =? snd b) st0 ops obs with Some collided => collided | None => false end.
