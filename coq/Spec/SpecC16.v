(* Executable statement of C16 on one scenario and the answers of the TWO builds of the
   implementation (default features = protobuf data model, --no-default-features = plain model).

   Written from the property text: for the same sequence of API calls
     - the structure returned by gather() is identical.  "Structure" is what a caller can read
       through the accessors that exist in both configurations (name, help, type, metrics, labels,
       the five payloads, timestamp).  The protobuf build additionally knows which optional field
       was ever assigned; the plain build has no such notion, so the harness prints presence for
       the first and every field as present for the second, and both are compared after mapping
       each printed metric to "all getters, every field present" [getters_obs];
     - every other observation of the scenario (results of constructors and registrations, values
       read back) is identical as printed;
     - the bytes produced by TextEncoder for the same families are identical, Err for Err.
   The correspondence predicates (model = implementation) are here too: the protobuf build is
   compared with the world model as printed, the plain build through [getters_obs]. *)
Require Import PV.Base.Prelude PV.Base.F64 PV.Base.Utf8.
Require Import PV.Model.Proto PV.Model.Desc PV.Model.Value PV.Model.Hist PV.Model.Vec PV.Model.Registry PV.Model.World.
Require Import PV.Model.Text PV.Model.DataModel PV.Spec.SpecC04.
Open Scope N_scope.

Definition getters_obs (o : obs) : obs :=
  match o with
  | OFams fs => OFams (map getters_family fs)
  | OFamsU fs => OFamsU (map getters_family fs)
  | _ => o
  end.
Definition same_obs (a b : list obs) : bool := match first_diff 0 a b with None => true | Some _ => false end.

(* ---------------------------------------------------------------- API histories *)
(* (the calls, (what the protobuf build printed, what the plain build printed)) *)
Definition c16_seq_case : Type := list op * (list obs * list obs).
Definition spec_c16_seq (c : c16_seq_case) : bool :=
  same_obs (map getters_obs (fst (snd c))) (map getters_obs (snd (snd c))).
Definition model_seq_pb (c : c16_seq_case) : bool := same_obs (run world0 (fst c)) (fst (snd c)).
Definition model_seq_plain (c : c16_seq_case) : bool :=
  same_obs (map getters_obs (run world0 (fst c))) (map getters_obs (snd (snd c))).
(* both at once (one evaluation of the model per scenario) *)
Definition model_seq_both (c : c16_seq_case) : bool :=
  let r := run world0 (fst c) in
  same_obs r (fst (snd c)) && same_obs (map getters_obs r) (map getters_obs (snd (snd c))).
(* the plain build has nothing to print but getters: its output is already in normal form *)
Definition plain_is_normal (c : c16_seq_case) : bool := same_obs (map getters_obs (snd (snd c))) (snd (snd c)).

(* ---------------------------------------------------------------- TextEncoder on literal families *)
(* encode into an empty Vec<u8> and encode_to_string, on both builds *)
Record c16_enc_case := mkEnc {
  e_fams : list MetricFamily;
  e_pb_text : eres; e_pb_string : eres;
  e_pl_text : eres; e_pl_string : eres }.
Definition spec_c16_enc (c : c16_enc_case) : bool :=
  eres_eqb (e_pb_text c) (e_pl_text c) && eres_eqb (e_pb_string c) (e_pl_string c)
  && match e_pb_text c with EPanic => false | _ => true end.
Definition model_enc_pb (show : f64 -> str) (showz : Z -> str) (c : c16_enc_case) : bool :=
  eres_eqb (encode show showz [] (e_fams c)) (e_pb_text c) && eres_eqb (encode_to_string show showz (e_fams c)) (e_pb_string c).
Definition model_enc_plain (show : f64 -> str) (showz : Z -> str) (c : c16_enc_case) : bool :=
  eres_eqb (encode show showz [] (e_fams c)) (e_pl_text c) && eres_eqb (encode_to_string show showz (e_fams c)) (e_pl_string c).
