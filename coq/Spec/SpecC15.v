(* Executable statement of C15 on a group of Desc::new calls and the ids / dimension hashes
   the IMPLEMENTATION returned for them.  Written from the property text: identity = (name,
   constant values in name order), dimension signature = (help, constant-name set,
   variable-name set); equalities of the 64-bit values may additionally be explained by a
   genuine collision of the hash (the property grants that). *)
Require Import PV.Base.Prelude PV.Base.Utf8 PV.Base.Fnv PV.Model.Proto PV.Model.Desc PV.Model.Value PV.Model.World.
Open Scope N_scope.

Definition sorted_pairs (consts : list (str * str)) : list (str * str) :=
  sort_by (fun a b => str_leb (fst a) (fst b)) (amap_of consts).
Definition same_identity (fq1 : str) (c1 : list (str * str)) (fq2 : str) (c2 : list (str * str)) : bool :=
  str_eqb fq1 fq2 && list_eqb str_eqb (map snd (sorted_pairs c1)) (map snd (sorted_pairs c2)).
Definition set_eqb (a b : list str) : bool :=
  forallb (fun x => mem_str x b) a && forallb (fun x => mem_str x a) b.
Definition same_dims (h1 : str) (v1 : list str) (c1 : list (str * str)) (h2 : str) (v2 : list str) (c2 : list (str * str)) : bool :=
  str_eqb h1 h2 && set_eqb (map fst c1) (map fst c2) && set_eqb v1 v2.

(* the bytes an identity / dimension signature is serialised to, for recognising true collisions *)
Definition id_bytes (fq : str) (c : list (str * str)) : list N := enc_sep (fq :: map snd (sorted_pairs c)).
Definition dim_bytes (h : str) (v : list str) (c : list (str * str)) : list N :=
  enc_sep (h :: sort_by str_leb (map fst (amap_of c) ++ map (fun x => DOLLAR :: x) v)).
Definition true_collision (a b : list N) : bool := negb (list_eqb N.eqb a b) && (fnv1a a =? fnv1a b).

Definition pair_ok (x y : op * obs) : bool :=
  match x, y with
  | (OpDesc fq1 h1 v1 c1, ODesc (Some (i1, d1, _))), (OpDesc fq2 h2 v2 c2, ODesc (Some (i2, d2, _))) =>
      (Bool.eqb (i1 =? i2) (same_identity fq1 c1 fq2 c2) || true_collision (id_bytes fq1 c1) (id_bytes fq2 c2))
      && (Bool.eqb (d1 =? d2) (same_dims h1 v1 c1 h2 v2 c2) || true_collision (dim_bytes h1 v1 c1) (dim_bytes h2 v2 c2))
  | _, _ => true
  end.
Fixpoint all_pairs {A} (f : A -> A -> bool) (l : list A) : bool :=
  match l with [] => true | x :: t => forallb (f x) t && all_pairs f t end.
(* the exposed constant label pairs are sorted by name and are exactly the supplied map *)
Definition pairs_ok (x : op * obs) : bool :=
  match x with
  | (OpDesc _ _ _ c, ODesc (Some (_, _, lps))) =>
      list_eqb lp_eqb (map (fun a => mkLP (fst a) (snd a)) (sorted_pairs c)) lps
  | _ => true
  end.
Definition spec_c15 (ops : list op) (obs : list obs) : bool :=
  let l := combine ops obs in all_pairs pair_ok l && forallb pairs_ok l.
