(* Executable statement of C06 on a CONCURRENT history of register / unregister / gather calls, evaluated on a trace of
   the IMPLEMENTATION using only the call and return markers and the returned values (never the lock events, never the
   model's tables, never a hash).

   Property text: "Over any history of register and unregister calls, a registration succeeds exactly when none of the
   collector's descriptors equals a currently registered one and none disagrees in help text or label names with a
   descriptor ever successfully registered under the same name; otherwise it fails (with AlreadyReg when an equal
   descriptor or the same collector is registered) and the registry afterwards behaves exactly as if the call had never
   been made.  Unregister succeeds exactly for a currently registered collector, after which its samples no longer
   appear in gather() and it can be registered again."
   A history of calls issued from several threads is a history: the calls must behave as if they had been executed one
   at a time.  [spec_c06conc]: there is ONE order of the completed calls, consistent with each thread's program order and
   with real time (a call that returned before another was invoked comes first), along which the simplest abstract
   registry there is (Spec/SpecC06.v: currently registered collectors + every descriptor ever successfully registered,
   compared STRUCTURALLY: equal = same name and constant values, agree = same help and label-name sets) explains
     - the result of every registration by the admission rule of the text (Spec/SpecC06.v [expected_register]: Ok /
       AlreadyReg / another error, with the same readings where the text is silent),
     - the result of every unregistration (Ok exactly for a currently registered collector),
     - every gather: each name the currently registered collectors describe, with one sample per describing descriptor -
       nothing of an unregistered or refused collector, nothing missing.
   The abstract registry changes only on calls that returned Ok, so a refused call that left a trace, or two overlapping
   registrations that were both accepted although they conflict with each other, have no such order.
   The order is searched exactly (depth-first over the interleavings of the threads' call sequences, pruned by real time);
   the search is budgeted: an exhausted budget answers Unknown, which counts as pass and is reported by [conc_unknown].
   Proofs/C06ConcPinned.v pins that a NotFound answer is exact (no order was skipped). *)
Require Import PV.Base.Prelude PV.Model.Conc PV.Model.RegConc.
Require Import PV.Model.World PV.Spec.SpecC06.
Open Scope N_scope.

(* a completed call: thread, call, result, index of the call marker, index of the return marker *)
Record qcrec := { qc_t : nat; qc_call : rcall; qc_ret : rret; qc_ci : N; qc_ri : N }.

Record qxst := { qx_open : list (nat * (rcall * N)); qx_done : list qcrec; qx_ok : bool }.
Fixpoint qopen_get (t : nat) (l : list (nat * (rcall * N))) : option (rcall * N) :=
  match l with [] => None | (u, x) :: r => if Nat.eqb u t then Some x else qopen_get t r end.
Fixpoint qopen_del (t : nat) (l : list (nat * (rcall * N))) : list (nat * (rcall * N)) :=
  match l with [] => [] | (u, x) :: r => if Nat.eqb u t then r else (u, x) :: qopen_del t r end.

Definition qxstep (xi : qxst * N) (e : revent) : qxst * N :=
  let (x, i) := xi in
  (match e with
   | RgCall t c =>
       match qopen_get t (qx_open x) with
       | None => {| qx_open := (t, (c, i)) :: qx_open x; qx_done := qx_done x; qx_ok := qx_ok x |}
       | Some _ => {| qx_open := qx_open x; qx_done := qx_done x; qx_ok := false |}
       end
   | RgRet t r =>
       match qopen_get t (qx_open x) with
       | Some (c, ci) => {| qx_open := qopen_del t (qx_open x);
                            qx_done := qx_done x ++ [{| qc_t := t; qc_call := c; qc_ret := r; qc_ci := ci; qc_ri := i |}]; qx_ok := qx_ok x |}
       | None => {| qx_open := qx_open x; qx_done := qx_done x; qx_ok := false |}
       end
   | RgLock _ _ _ _ | RgUnlock _ _ _ | RgDesc _ _ | RgCollect _ _ => x
   | _ => {| qx_open := qx_open x; qx_done := qx_done x; qx_ok := false |}      (* panic, unknown step, stuck, deadlock, livelock, no hooks *)
   end, i + 1).

(* calls in return order; well-formed = every call returned and nothing went wrong *)
Definition qextract (es : list revent) : list qcrec * bool :=
  let x := fst (fold_left qxstep es ({| qx_open := []; qx_done := []; qx_ok := true |}, 0)) in
  (qx_done x, qx_ok x && is_nil (qx_open x)).

(* ------------------------------------------------------------------ the abstract registry of Spec/SpecC06.v, one call at a time *)
Section S.
Variable cs : list (list sdesc).          (* the scenario's collectors, as written *)
Definition cdescs (i : nat) : list sdesc := nth i cs [].

Definition areg0 : areg := mkAR [] None None [] [].

Definition rres_matches (e : expect) (r : rret) : bool :=
  match e, r with
  | XOk, ROk => true
  | XAlready, RErrAlreadyReg => true
  | XOtherErr, RErrMsg => true
  | XAnyErr, RErrAlreadyReg | XAnyErr, RErrMsg => true
  | _, _ => false
  end.
Definition is_rerr (r : rret) : bool := match r with RErrAlreadyReg | RErrMsg => true | _ => false end.

(* every name the registered collectors describe, with the number of descriptors carrying it *)
Fixpoint view_count (n : str) (v : list (str * N)) : list (str * N) :=
  match v with
  | [] => [(n, 1)]
  | (m, k) :: r => if str_eqb n m then (m, k + 1) :: r else (m, k) :: view_count n r
  end.
Definition expected_view (x : areg) : list (str * N) :=
  fold_left (fun v n => view_count n v) (flat_map (fun e => map sd_fq (snd e)) (ar_cur x)) [].
Fixpoint view_get (n : str) (v : list (str * N)) : option N :=
  match v with [] => None | (m, k) :: r => if str_eqb n m then Some k else view_get n r end.
(* the gathered families are exactly the expected ones (each name once), in any order *)
Definition view_matches (l ev : list (str * N)) : bool :=
  Nat.eqb (length l) (length ev) && nodup_str (map fst l)
  && forallb (fun nk => match view_get (fst nk) ev with Some k => snd nk =? k | None => false end) l.

Definition apply_call (x : areg) (c : qcrec) : option areg :=
  match qc_call c, qc_ret c with
  | RRegister i, RFams _ => None
  | RRegister i, r =>
      if rres_matches (expected_register false x (cdescs i)) r
      then Some (match r with ROk => ar_add (CValue i) (cdescs i) x | _ => x end)
      else None
  | RUnregister i, r =>
      if coll_registered false x (cdescs i)
      then match r with ROk => Some (ar_del false (cdescs i) x) | _ => None end
      else if is_rerr r then Some x else None
  | RGather, RFams l => if view_matches l (expected_view x) then Some x else None
  | RGather, _ => None
  end.

End S.

(* ------------------------------------------------------------------ the search for an order, generic in the sequential object *)
(* thread-indexed remaining calls (program order = the order of each thread's list); a call may go next only if no other
   thread still owes a call that returned before this call was invoked (real time) *)
Fixpoint qheads_ok (a : qcrec) (rem : list (list qcrec)) : bool :=
  match rem with
  | [] => true
  | [] :: r => qheads_ok a r
  | (b :: _) :: r => negb (qc_ri b <? qc_ci a) && qheads_ok a r
  end.
Fixpoint qpop (i : nat) (rem : list (list qcrec)) : option (qcrec * list (list qcrec)) :=
  match rem, i with
  | [], _ => None
  | l :: r, O => match l with [] => None | a :: l' => Some (a, l' :: r) end
  | l :: r, S i' => match qpop i' r with Some (a, r') => Some (a, l :: r') | None => None end
  end.
Definition qall_done (rem : list (list qcrec)) : bool := forallb is_nil rem.
Inductive qsres := QFound | QNotFound | QUnknown.

Section Search.
Variable St : Type.                              (* states of the sequential object *)
Variable app : St -> qcrec -> option St.         (* a completed call, with its result, applied to a state: None = not explained *)

(* what the search looks for *)
Inductive order_exists : St -> list (list qcrec) -> Prop :=
| ord_done x rem : qall_done rem = true -> order_exists x rem
| ord_step x rem i a rem' x' :
    qpop i rem = Some (a, rem') -> qheads_ok a rem = true -> app x a = Some x' -> order_exists x' rem' -> order_exists x rem.

Fixpoint qtry_cands (k : St -> list (list qcrec) -> nat -> qsres * nat) (x : St) (rem : list (list qcrec))
                    (cands : list nat) (bud : nat) : qsres * nat :=
  match cands with
  | [] => (QNotFound, bud)
  | i :: cs' =>
      match bud with
      | O => (QUnknown, O)
      | S b =>
          match qpop i rem with
          | Some (a, rem') =>
              if qheads_ok a rem then
                match app x a with
                | Some x' =>
                    match k x' rem' b with
                    | (QFound, b') => (QFound, b')
                    | (QUnknown, b') => (QUnknown, b')
                    | (QNotFound, b') => qtry_cands k x rem cs' b'
                    end
                | None => qtry_cands k x rem cs' b
                end
              else qtry_cands k x rem cs' b
          | None => qtry_cands k x rem cs' b
          end
      end
  end.
Fixpoint qdfs (fuel : nat) (x : St) (rem : list (list qcrec)) (bud : nat) : qsres * nat :=
  match fuel with
  | O => (QUnknown, bud)
  | S f => if qall_done rem then (QFound, bud) else qtry_cands (qdfs f) x rem (seq 0 (length rem)) bud
  end.
End Search.

Fixpoint qinsert_ci (c : qcrec) (l : list qcrec) : list qcrec :=
  match l with [] => [c] | x :: r => if qc_ci c <? qc_ci x then c :: l else x :: qinsert_ci c r end.
Definition thread_calls (done : list qcrec) (t : nat) : list qcrec :=
  fold_right qinsert_ci [] (filter (fun c => Nat.eqb (qc_t c) t) done).
Definition qmax_tid (done : list qcrec) : nat := fold_left (fun m c => Nat.max m (qc_t c)) done O.
Definition all_calls (done : list qcrec) : list (list qcrec) := map (thread_calls done) (seq 0 (S (qmax_tid done))).

Definition conc_budget : nat := 300 * 100.
Definition search_from {St} (app : St -> qcrec -> option St) (x0 : St) (done : list qcrec) : qsres :=
  let rem := all_calls done in
  let n := fold_left (fun a l => (a + length l)%nat) rem O in
  fst (qdfs St app (S n) x0 rem conc_budget).
Definition order_search (cs : list (list sdesc)) (done : list qcrec) : qsres := search_from (apply_call cs) areg0 done.
(* the statement, as a proposition *)
Definition sequential_order_exists (cs : list (list sdesc)) (done : list qcrec) : Prop :=
  order_exists areg (apply_call cs) areg0 (all_calls done).

(* collector indices in range *)
Definition calls_in_range (cs : list (list sdesc)) (done : list qcrec) : bool :=
  forallb (fun c => match qc_call c with RRegister i | RUnregister i => Nat.ltb i (length cs) | RGather => true end) done.

Definition spec_c06conc (cs : list (list sdesc)) (es : list revent) : bool :=
  let (done, wf) := qextract es in
  wf && calls_in_range cs done && match order_search cs done with QNotFound => false | _ => true end.
(* the search ran out of budget: counted as pass *)
Definition conc_unknown (cs : list (list sdesc)) (es : list revent) : bool :=
  let (done, wf) := qextract es in
  wf && calls_in_range cs done && match order_search cs done with QUnknown => true | _ => false end.

(* one pass for the check driver: 0 = holds, 1 = search out of budget (pass), 2 = fails *)
Definition conc_classify (cs : list (list sdesc)) (es : list revent) : N :=
  let (done, wf) := qextract es in
  if negb (wf && calls_in_range cs done) then 2
  else match order_search cs done with QFound => 0 | QUnknown => 1 | QNotFound => 2 end.
