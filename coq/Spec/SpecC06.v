(* Executable statement of C06 on a scenario and the observations the IMPLEMENTATION produced for
   it.  Written from the property text:

     Over any history of register and unregister calls, a registration succeeds exactly when
     none of the collector's descriptors equals (same fully-qualified name and constant-label
     values) a currently registered one and none disagrees in help text or label names with a
     descriptor ever successfully registered under the same name; otherwise it fails (with
     AlreadyReg when an equal descriptor or the same collector is registered) and the registry
     afterwards behaves exactly as if the call had never been made.  Unregister succeeds exactly
     for a currently registered collector, after which its samples no longer appear in gather()
     and it can be registered again.

   The history is replayed against the simplest abstract registry there is:
     ar_cur   the currently registered collectors, each with its descriptors,
     ar_ever  every descriptor that was ever part of a successful registration.
   Descriptors are the ARGUMENTS of the constructor calls of the scenario (name, help, variable
   label names, constant labels) - no hash is ever looked at: two descriptors are equal when
   name and constant values (in label-name order) are, they agree when help, constant-name set
   and variable-name set are.  A collector has no identity beyond its descriptors (register and
   unregister take a fresh Box<dyn Collector>): "the same collector" = the same set of
   descriptors.  Every observed result of register / unregister is judged against the abstract
   registry; the abstract registry changes only on calls the implementation answered with Ok, so
   a refused call that left any trace shows up as a wrong answer to a later call.  Every gather
   must expose exactly the samples of the currently registered collectors.

   Readings of the text where it is silent (all of them make a registration FAIL, never succeed):
   - a collector that lists one descriptor twice, or two descriptors of one name that disagree
     with each other, is refused (accepting it would break "all registered descriptors of a name
     agree", which the second clause protects);
   - a descriptor one of whose label names is also a common label of the registry is refused
     (the repaired behaviour of C09: commit c627cf3);
   - error kind: AlreadyReg is demanded when some descriptor equals a registered one (or the
     collector itself is registered) and no OTHER descriptor of the collector raises one of the
     objections above; another error is demanded when no descriptor equals a registered one;
     when both kinds of objection are present any error is accepted (the text gives no priority).

   What is taken from the model: the world state, used ONLY to list the samples a registered
   collector currently exposes (one collect() per collector).  Which collectors are registered
   is tracked here, from the operations and the implementation's own answers - not from the
   model's registry tables.

   [known_c06]: the recorded finding C06-fnv-collision - identity is decided by a 64-bit FNV-1a
   hash, so two structurally different descriptors (or signatures) whose hashes collide are
   confused.  Delimited: the scenario contains such a colliding pair AND the whole history is
   exactly right once "equal" / "agree" are read modulo the hash. *)
Require Import PV.Base.Prelude PV.Base.Utf8 PV.Base.Fnv PV.Base.F64.
Require Import PV.Model.Proto PV.Model.Desc PV.Model.Value PV.Model.Hist PV.Model.Vec PV.Model.Registry PV.Model.World.
Require Import PV.Spec.SpecC15 PV.Spec.SpecC07.
Open Scope N_scope.

(* ---------- descriptors as written in the scenario ---------- *)
Definition sdesc := (str * str * list str * list (str * str))%type.    (* fq name, help, variable names, constant labels *)
Definition sd_fq (d : sdesc) : str := let '(fq, _, _, _) := d in fq.
Definition sd_help (d : sdesc) : str := let '(_, h, _, _) := d in h.
Definition sd_vars (d : sdesc) : list str := let '(_, _, v, _) := d in v.
Definition sd_consts (d : sdesc) : list (str * str) := let '(_, _, _, c) := d in c.
Definition sd_label_names (d : sdesc) : list str := map fst (amap_of (sd_consts d)) ++ sd_vars d.

Definition opts_sdesc (o : Opts) (vars : list str) : sdesc := (opts_fq_name o, o_help o, vars, o_consts o).

(* the slot appended by a constructor-like operation: its descriptors if it is a collector *)
Definition c6_slot (o : op) (ob : obs) (slots : list (option (list sdesc))) : option (option (list sdesc)) :=
  let ok (e : list sdesc) := if is_ok ob then Some e else None in
  match o with
  | OpCounter _ o' | OpGauge _ o' => Some (ok [opts_sdesc o' (o_vars o')])
  | OpCounterVec _ o' ls | OpGaugeVec _ o' ls => Some (ok [opts_sdesc o' ls])
  | OpHistogram ho => Some (ok [opts_sdesc (ho_common ho) (o_vars (ho_common ho))])
  | OpHistVec ho ls => Some (ok [opts_sdesc (ho_common ho) ls])
  | OpPulling n h _ => Some (ok [(n, h, [], [])])
  | OpCustom ds _ => Some (ok ds)
  | OpWith s _ | OpWithMap s _ | OpClone s => Some (if is_ok ob then nth s slots None else None)   (* a child / clone describes itself like its source *)
  | OpLocal _ | OpTimer _ | OpRegistry _ _ => Some None
  | _ => None
  end.

Section Replay.
  (* false: the property as stated (structural).  true: equality of identities / signatures
     read modulo the 64-bit hash, used only to delimit the known finding. *)
  Variable hashed : bool.

  Definition eq_ident (a b : sdesc) : bool :=
    if hashed then fnv1a (id_bytes (sd_fq a) (sd_consts a)) =? fnv1a (id_bytes (sd_fq b) (sd_consts b))
    else same_identity (sd_fq a) (sd_consts a) (sd_fq b) (sd_consts b).
  Definition eq_sig (a b : sdesc) : bool :=
    if hashed then fnv1a (dim_bytes (sd_help a) (sd_vars a) (sd_consts a)) =? fnv1a (dim_bytes (sd_help b) (sd_vars b) (sd_consts b))
    else same_dims (sd_help a) (sd_vars a) (sd_consts a) (sd_help b) (sd_vars b) (sd_consts b).
  (* same name, other help or label names *)
  Definition disagrees (a b : sdesc) : bool := str_eqb (sd_fq a) (sd_fq b) && negb (eq_sig a b).
  Definition same_collector (a b : list sdesc) : bool :=
    forallb (fun d => existsb (eq_ident d) b) a && forallb (fun d => existsb (eq_ident d) a) b.

  Record areg := mkAR {
    ar_slots : list nat;                              (* the slots holding (clones of) this registry *)
    ar_prefix : option str; ar_labels : option (list (str * str));
    ar_cur : list (collector * list sdesc);           (* currently registered *)
    ar_ever : list sdesc }.                           (* ever successfully registered *)

  Definition eq_registered (x : areg) (d : sdesc) : bool := existsb (fun e => existsb (eq_ident d) (snd e)) (ar_cur x).
  Definition coll_registered (x : areg) (ds : list sdesc) : bool := existsb (fun e => same_collector ds (snd e)) (ar_cur x).
  Definition clashes_common (x : areg) (d : sdesc) : bool :=
    match ar_labels x with
    | Some l => existsb (fun n => existsb (fun kv => str_eqb n (fst kv)) l) (sd_label_names d)
    | None => false
    end.
  (* what can be wrong with a descriptor that is not itself equal to a registered one *)
  Definition objection (x : areg) (ds : list sdesc) (d : sdesc) : bool :=
    clashes_common x d
    || existsb (fun d' => disagrees d' d) (ar_ever x)
    || existsb (fun d' => disagrees d' d) ds
    || Nat.ltb 1 (length (filter (eq_ident d) ds)).

  Inductive expect := XOk | XAlready | XOtherErr | XAnyErr.
  Definition expected_register (x : areg) (ds : list sdesc) : expect :=
    let a := existsb (eq_registered x) ds in
    let m := existsb (fun d => negb (eq_registered x d) && objection x ds d) ds in
    match a, m with
    | false, false => if coll_registered x ds then XAlready else XOk
    | true, false => XAlready
    | false, true => XOtherErr
    | true, true => XAnyErr
    end.
  Definition res_matches (e : expect) (ob : obs) : bool :=
    match e, ob with
    | XOk, ORes (Ok _) => true
    | XAlready, ORes (Err EAlreadyReg) => true
    | XOtherErr, ORes (Err EAlreadyReg) => false
    | XOtherErr, ORes (Err _) => true
    | XAnyErr, ORes (Err _) => true
    | _, _ => false
    end.
  Definition is_okres (ob : obs) : bool := match ob with ORes (Ok _) => true | _ => false end.
  Definition is_errres (ob : obs) : bool := match ob with ORes (Err _) => true | _ => false end.

  Definition has_slot (r : nat) (x : areg) : bool := existsb (Nat.eqb r) (ar_slots x).
  Fixpoint find_reg (r : nat) (regs : list areg) : option areg :=
    match regs with [] => None | x :: t => if has_slot r x then Some x else find_reg r t end.
  Definition upd_reg (r : nat) (f : areg -> areg) (regs : list areg) : list areg :=
    map (fun x => if has_slot r x then f x else x) regs.
  Definition ar_add (c : collector) (ds : list sdesc) (x : areg) : areg :=
    mkAR (ar_slots x) (ar_prefix x) (ar_labels x) (ar_cur x ++ [(c, ds)]) (ar_ever x ++ ds).
  Definition ar_del (ds : list sdesc) (x : areg) : areg :=
    mkAR (ar_slots x) (ar_prefix x) (ar_labels x) (filter (fun e => negb (same_collector ds (snd e))) (ar_cur x)) (ar_ever x).
  Definition ar_alias (s : nat) (x : areg) : areg := mkAR (s :: ar_slots x) (ar_prefix x) (ar_labels x) (ar_cur x) (ar_ever x).

  (* one collect() per registered collector, in the current world *)
  Fixpoint collect_registered (w : world) (cs : list (collector * list sdesc)) : option (list MetricFamily) :=
    match cs with
    | [] => Some []
    | (c, _) :: t =>
        match collect_collector w c with
        | Some (fs, w1) => match collect_registered w1 t with Some r => Some (fs ++ r) | None => None end
        | None => None
        end
    end.
  (* gather exposes exactly the samples of the registered collectors (under the registry's
     prefix, with its common labels): nothing of an unregistered or refused collector, nothing missing *)
  Definition gather_exact (w : world) (x : areg) (fams : list MetricFamily) : bool :=
    match collect_registered w (ar_cur x) with
    | Some collected => multiset_eqb sample_eqb (expected_samples (ar_prefix x) (ar_labels x) collected) (flatten fams)
    | None => true
    end.

  Fixpoint replay (w : world) (slots : list (option (list sdesc))) (regs : list areg) (ops : list op) (obs : list obs) : bool :=
    match ops, obs with
    | o :: ops', ob :: obs' =>
        let w' := fst (step w o) in
        let slots' := match c6_slot o ob slots with Some e => slots ++ [e] | None => slots end in
        match o with
        | OpRegistry p l =>
            replay w' slots' (if is_ok ob then mkAR [length slots] p l [] [] :: regs else regs) ops' obs'
        | OpClone s =>
            replay w' slots' (if is_ok ob then upd_reg s (ar_alias (length slots)) regs else regs) ops' obs'
        | OpRegister r s =>
            match find_reg r regs, nth s slots None, collector_of w (slot w s) with
            | Some x, Some ds, Some (c, _) =>
                res_matches (expected_register x ds) ob
                && replay w' slots' (if is_okres ob then upd_reg r (ar_add c ds) regs else regs) ops' obs'
            | _, _, _ => replay w' slots' regs ops' obs'
            end
        | OpUnregister r s =>
            match find_reg r regs, nth s slots None with
            | Some x, Some ds =>
                (if coll_registered x ds then is_okres ob else is_errres ob)
                && replay w' slots' (if is_okres ob then upd_reg r (ar_del ds) regs else regs) ops' obs'
            | _, _ => replay w' slots' regs ops' obs'
            end
        | OpGather r =>
            match find_reg r regs with
            | Some x =>
                match ob with OFams fams => gather_exact w x fams | _ => false end
                && replay w' slots' regs ops' obs'
            | None => replay w' slots' regs ops' obs'
            end
        | _ => replay w' slots' regs ops' obs'
        end
    | _, _ => true
    end.
End Replay.

Definition spec_c06 (ops : list op) (obs : list obs) : bool := replay false world0 [] [] ops obs.

(* ---------- the known class: a genuine FNV-1a-64 collision among the scenario's descriptors ---------- *)
Fixpoint all_sdescs (slots : list (option (list sdesc))) (ops : list op) (obs : list obs) : list sdesc :=
  match ops, obs with
  | o :: ops', ob :: obs' =>
      match c6_slot o ob slots with
      | Some e => match o, e with
                  | OpWith _ _, _ | OpWithMap _ _, _ | OpClone _, _ => all_sdescs (slots ++ [e]) ops' obs'
                  | _, Some ds => ds ++ all_sdescs (slots ++ [e]) ops' obs'
                  | _, None => all_sdescs (slots ++ [e]) ops' obs'
                  end
      | None => all_sdescs slots ops' obs'
      end
  | _, _ => []
  end.
Definition hashed_view (d : sdesc) : (list N * N) * (list N * N) :=
  let i := id_bytes (sd_fq d) (sd_consts d) in let s := dim_bytes (sd_help d) (sd_vars d) (sd_consts d) in
  ((i, fnv1a i), (s, fnv1a s)).
Definition collide (a b : list N * N) : bool := negb (list_eqb N.eqb (fst a) (fst b)) && (snd a =? snd b).
Fixpoint any_pair {A} (f : A -> A -> bool) (l : list A) : bool :=
  match l with [] => false | x :: t => existsb (f x) t || any_pair f t end.
Definition has_collision (ds : list sdesc) : bool :=
  any_pair (fun a b => collide (fst a) (fst b) || collide (snd a) (snd b)) (map hashed_view ds).

Definition known_c06 (ops : list op) (obs : list obs) : bool :=
  if spec_c06 ops obs then false
  else has_collision (all_sdescs [] ops obs) && replay true world0 [] [] ops obs.
