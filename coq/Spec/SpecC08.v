(* Executable statement of C08 on a scenario and the observations the IMPLEMENTATION produced.
   Written from the property text, not from Model/Hist.v:
   - a bucket list is acceptable iff, after an empty list is replaced by the default buckets,
     every bound is a number and the bounds are strictly increasing; the configured bounds are
     that list without a trailing +Inf;
   - a collected histogram reports count = number of observations, sum = their sum in the order
     applied (a flushed local batch contributes its own sum as one addend), and for each
     configured bound b, in order, the number of observations v with v <= b;
   - a local histogram follows the same rule: its values reach the histogram when it is flushed
     or dropped, never when it is cleared.
   The spec interprets the scenario abstractly (per histogram: bounds, the list of values that
   reached it, the running sum; per local: the pending values and their sum) and judges every
   constructor result, collection and sum / count read.  Operations outside the fragment it
   understands (timers, local vectors, child removal, map-form lookups) end the judgement of the
   scenario: everything before them has been judged. *)
Require Import PV.Base.Prelude PV.Base.F64 PV.Model.Proto PV.Model.Desc PV.Model.Value PV.Model.Hist PV.Model.Vec PV.Model.Registry PV.Model.World.
Open Scope N_scope.
Set Warnings "-inexact-float".

(* ---- acceptance, from the text ---- *)
Definition spec_default_bounds : list f64 := [0.005; 0.01; 0.025; 0.05; 0.1; 0.25; 0.5; 1; 2.5; 5; 10]%float.
Definition is_number (x : f64) : bool := PrimFloat.eqb x x.
Fixpoint strictly_increasing (l : list f64) : bool :=
  match l with
  | a :: r => match r with b :: _ => PrimFloat.ltb a b | [] => true end && strictly_increasing r
  | [] => true
  end.
Definition effective (bs : list f64) : list f64 := match bs with [] => spec_default_bounds | _ => bs end.
Definition acceptable (bs : list f64) : bool := forallb is_number (effective bs) && strictly_increasing (effective bs).
Definition is_pinf (x : f64) : bool := PrimFloat.eqb x infinity.
Fixpoint drop_trailing_inf (l : list f64) : list f64 :=
  match l with
  | [] => []
  | x :: r => match r with [] => if is_pinf x then [] else [x] | _ => x :: drop_trailing_inf r end
  end.
Definition configured (bs : list f64) : list f64 := drop_trailing_inf (effective bs).

(* ---- abstract state ---- *)
Record ahist := mkAH { ah_bounds : list f64; ah_obs : list f64; ah_sum : f64 }.
Record avec := mkAV { av_buckets : list f64; av_nlabels : nat; av_children : list (list str * nat) }.
Inductive aslot :=
| ADead | AOther
| AHist (i : nat)
| AVec (v : nat)
| ALocal (i : nat) (pending : list f64) (psum : f64).
Record sstate := mkSS { ss_h : list ahist; ss_v : list avec; ss_slots : list aslot }.
Definition ss0 : sstate := mkSS [] [] [].
Definition ss_push (s : sstate) (a : aslot) : sstate := mkSS (ss_h s) (ss_v s) (ss_slots s ++ [a]).
Definition ss_put (s : sstate) (i : nat) (a : aslot) : sstate := mkSS (ss_h s) (ss_v s) (list_set (ss_slots s) i a).
Definition ss_slot (s : sstate) (i : nat) : aslot := nth i (ss_slots s) ADead.
Definition ah_dummy : ahist := mkAH [] [] f_zero.
Definition ss_hist (s : sstate) (i : nat) : ahist := nth i (ss_h s) ah_dummy.
Definition ss_set_hist (s : sstate) (i : nat) (a : ahist) : sstate := mkSS (list_set (ss_h s) i a) (ss_v s) (ss_slots s).

Definition ah_observe (a : ahist) (v : f64) : ahist := mkAH (ah_bounds a) (ah_obs a ++ [v]) (ah_sum a + v)%float.
(* a batch reaches the histogram: its values, and its sum as ONE addend; an empty batch is nothing *)
Definition ah_batch (a : ahist) (vals : list f64) (s : f64) : ahist :=
  match vals with [] => a | _ => mkAH (ah_bounds a) (ah_obs a ++ vals) (ah_sum a + s)%float end.

Definition count_le_spec (b : f64) (obs : list f64) : N := N.of_nat (length (filter (fun v => PrimFloat.leb v b) obs)).
Fixpoint buckets_ok (bks : list Bucket) (bs : list f64) (obs : list f64) : bool :=
  match bks, bs with
  | [], [] => true
  | k :: bks', b :: bs' => (b_cum k =? count_le_spec b obs) && f64_eqb (b_upper k) b && buckets_ok bks' bs' obs
  | _, _ => false
  end.
Definition hist_ok (a : ahist) (h : Histogram) : bool :=
  (h_count h =? N.of_nat (length (ah_obs a))) && f64_eqb (h_sum h) (ah_sum a) && buckets_ok (h_bucket h) (ah_bounds a) (ah_obs a).

Definition is_ok (o : obs) : bool := match o with ORes (Ok _) => true | _ => false end.
Definition is_res (o : obs) : bool := match o with ORes _ => true | _ => false end.
Definition is_unit (o : obs) : bool := match o with OUnit => true | _ => false end.

Definition strs_eqb (a b : list str) : bool := list_eqb str_eqb a b.
Fixpoint child_lookup (k : list str) (m : list (list str * nat)) : option nat :=
  match m with [] => None | (k', i) :: t => if strs_eqb k k' then Some i else child_lookup k t end.

(* the guard under which a constructor result is judged: everything except the buckets is fine *)
Definition hopts_valid (o : HistogramOpts) : bool :=
  match hopts_describe o with
  | Some d => negb (has_le_label d) && is_nil (d_vars d)
  | None => false
  end.

(* each child of a collected vector must be one of the collected metrics: multiset comparison
   of the expected children against the reported histograms *)
Fixpoint take_matching (a : ahist) (hs : list Histogram) : option (list Histogram) :=
  match hs with
  | [] => None
  | h :: t => if hist_ok a h then Some t
              else match take_matching a t with Some t' => Some (h :: t') | None => None end
  end.
Fixpoint all_matched (exp : list ahist) (hs : list Histogram) : bool :=
  match exp with
  | [] => is_nil hs
  | a :: r => match take_matching a hs with Some hs' => all_matched r hs' | None => false end
  end.
Fixpoint opt_all {A} (l : list (option A)) : option (list A) :=
  match l with
  | [] => Some []
  | Some x :: t => match opt_all t with Some r => Some (x :: r) | None => None end
  | None :: _ => None
  end.

(* the helper constructors, from their documentation: an error iff count = 0 or the step is not
   positive (linear) / start is not positive or factor is not above 1 (exponential); otherwise
   [count] bounds, the first one being (numerically) the start *)
Definition helper_ok (err : bool) (start : f64) (count : N) (first_is_start : bool) (o : obs) : bool :=
  match o with
  | OBuckets None => err
  | OBuckets (Some l) => negb err && (N.of_nat (length l) =? count)
                         && (negb first_is_start || negb (is_number start) || match l with x :: _ => PrimFloat.eqb x start | [] => false end)
  | _ => false
  end.

(* one step: None = outside the fragment, stop judging; Some (state, verdict) *)
Definition sstep (s : sstate) (o : op) (ob : obs) : option (sstate * bool) :=
  match o with
  | OpHistogram ho =>
      let live := is_ok ob in
      let s' := if live then ss_push (mkSS (ss_h s ++ [mkAH (configured (ho_buckets ho)) [] f_zero]) (ss_v s) (ss_slots s))
                                     (AHist (length (ss_h s)))
                else ss_push s ADead in
      Some (s', is_res ob && (negb (hopts_valid ho) || Bool.eqb live (acceptable (ho_buckets ho))))
  | OpHistVec ho labels =>
      if is_ok ob then Some (ss_push (mkSS (ss_h s) (ss_v s ++ [mkAV (ho_buckets ho) (length labels) []]) (ss_slots s))
                                     (AVec (length (ss_v s))), true)
      else Some (ss_push s ADead, is_res ob)
  | OpWith sl vals =>
      match ss_slot s sl with
      | AVec vi =>
          let v := nth vi (ss_v s) (mkAV [] 0 []) in
          let judged := Nat.eqb (length vals) (av_nlabels v) in
          let verdict := is_res ob && (negb judged || Bool.eqb (is_ok ob) (acceptable (av_buckets v))) in
          if is_ok ob then
            match child_lookup vals (av_children v) with
            | Some i => Some (ss_push s (AHist i), verdict)
            | None =>
                let i := length (ss_h s) in
                let v' := mkAV (av_buckets v) (av_nlabels v) (av_children v ++ [(vals, i)]) in
                Some (ss_push (mkSS (ss_h s ++ [mkAH (configured (av_buckets v)) [] f_zero]) (list_set (ss_v s) vi v') (ss_slots s))
                              (AHist i), verdict)
            end
          else Some (ss_push s ADead, verdict)
      | ADead => Some (ss_push s ADead, true)
      | AOther => Some (ss_push s AOther, true)
      | _ => None
      end
  | OpObserve sl v =>
      match ss_slot s sl with
      | AHist i => Some (ss_set_hist s i (ah_observe (ss_hist s i) v), is_unit ob)
      | ALocal i p ps => Some (ss_put s sl (ALocal i (p ++ [v]) (ps + v)%float), is_unit ob)
      | _ => Some (s, true)
      end
  | OpLocal sl =>
      match ss_slot s sl with
      | AHist i => Some (ss_push s (ALocal i [] f_zero), is_unit ob)
      | AOther => Some (ss_push s AOther, true)
      | ADead => Some (ss_push s ADead, true)
      | _ => None
      end
  | OpFlush sl =>
      match ss_slot s sl with
      | ALocal i p ps => Some (ss_put (ss_set_hist s i (ah_batch (ss_hist s i) p ps)) sl (ALocal i [] f_zero), is_unit ob)
      | _ => Some (s, true)
      end
  | OpClear sl =>
      match ss_slot s sl with
      | ALocal i p ps => Some (ss_put s sl (ALocal i [] f_zero), is_unit ob)
      | _ => Some (s, true)
      end
  | OpDrop sl =>
      match ss_slot s sl with
      | ALocal i p ps => Some (ss_put (ss_set_hist s i (ah_batch (ss_hist s i) p ps)) sl ADead, is_unit ob)
      | ADead => Some (s, true)
      | _ => Some (ss_put s sl ADead, true)
      end
  | OpClone sl =>
      match ss_slot s sl with
      | ALocal i _ _ => Some (ss_push s (ALocal i [] f_zero), is_unit ob)
      | a => Some (ss_push s a, true)
      end
  | OpCollect sl =>
      match ss_slot s sl with
      | AHist i =>
          Some (s, match ob with
                   | OFamsU [mf] => match mf_metric mf with
                                    | [m] => match m_histogram m with Some h => hist_ok (ss_hist s i) h | None => false end
                                    | _ => false
                                    end
                   | _ => false
                   end)
      | AVec vi =>
          let v := nth vi (ss_v s) (mkAV [] 0 []) in
          Some (s, match ob with
                   | OFamsU [mf] => match opt_all (map m_histogram (mf_metric mf)) with
                                    | Some hs => all_matched (map (fun c => ss_hist s (snd c)) (av_children v)) hs
                                    | None => false
                                    end
                   | _ => false
                   end)
      | _ => Some (s, true)
      end
  | OpSampleSum sl =>
      match ss_slot s sl with
      | AHist i => Some (s, match ob with OF64 x => f64_eqb x (ah_sum (ss_hist s i)) | _ => false end)
      | ALocal _ _ ps => Some (s, match ob with OF64 x => f64_eqb x ps | _ => false end)
      | _ => Some (s, true)
      end
  | OpSampleCount sl =>
      match ss_slot s sl with
      | AHist i => Some (s, match ob with ON n => n =? N.of_nat (length (ah_obs (ss_hist s i))) | _ => false end)
      | ALocal _ p _ => Some (s, match ob with ON n => n =? N.of_nat (length p) | _ => false end)
      | _ => Some (s, true)
      end
  | OpLinearBuckets start width count =>
      Some (s, helper_ok ((count =? 0) || PrimFloat.leb width 0) start count (is_number width && negb (is_pinf width)) ob)
  | OpExpBuckets start factor count =>
      Some (s, helper_ok ((count =? 0) || PrimFloat.leb start 0 || PrimFloat.leb factor 1) start count true ob)
  (* constructors of other metric kinds: a slot the spec does not look into *)
  | OpCounter _ _ | OpGauge _ _ | OpCounterVec _ _ _ | OpGaugeVec _ _ _ | OpRegistry _ _ | OpCustom _ _ | OpPulling _ _ _ =>
      Some (ss_push s AOther, true)
  (* operations that cannot touch a histogram's content *)
  | OpDesc _ _ _ _ | OpFqName _ _ _ | OpDescOf _ | OpGet _ | OpRegister _ _ | OpUnregister _ _ | OpGather _ => Some (s, true)
  | OpInc sl | OpIncBy sl _ | OpDec sl | OpAdd sl _ | OpSub sl _ | OpSet sl _ =>
      match ss_slot s sl with AOther | ADead => Some (s, true) | _ => None end
  | _ => None
  end.

Fixpoint sjudge (s : sstate) (ops : list op) (obs : list obs) : bool :=
  match ops, obs with
  | [], [] => true
  | o :: ops', ob :: obs' =>
      match sstep s o ob with
      | None => true
      | Some (s', ok) => ok && sjudge s' ops' obs'
      end
  | _, _ => false        (* fewer / more observations than operations: a hang or a crash *)
  end.

Definition spec_c08 (ops : list op) (obs : list obs) : bool := sjudge ss0 ops obs.
