(* Executable statement of C11 on a trace of the IMPLEMENTATION (call / return markers and returned values only):

     "Gauge and IntGauge operations (set, inc, dec, add, sub, get) issued from any number of threads are atomic: every
      returned value ... [is] explained by executing the calls one at a time in an order consistent with real time, so
      concurrent add/sub/inc/dec are never lost, set is never torn, and sub(x) undoes add(x)."

   The check is the definition itself: a search for a total order of the calls that respects real time (a call that
   returned before another was invoked comes first) and whose one-at-a-time execution on a plain variable returns exactly
   the values the implementation returned.  The sequential gauge is written from the documentation of src/gauge.rs:
   set x: v := x;  inc: v := v + 1;  dec: v := v - 1;  add d: v := v + d;  sub d: v := v - d;  get: returns v.
   IntGauge: i64 arithmetic, wrapping (two's complement patterns);  Gauge: binary64 arithmetic (one NaN).
   One cheap consequence is checked on traces of any size that contain no set and only small amounts: a read returns the
   sum of the amounts of the calls that returned before it was invoked plus the amounts of SOME subset of the calls that
   overlap it (no update lost, none applied twice) - the analogue of C01's read-subset check for signed amounts.
   The generator keeps traces at or below `search_limit` calls (2-3 threads), where the search is exhaustive. *)
Require Import PV.Base.Prelude PV.Base.F64 PV.Model.Conc PV.Spec.SpecC01.
From Coq Require Import ZArith Lia.
Open Scope Z_scope.

Definition gauge_step_int (s : N) (c : call) : option (N * option N) :=
  let upd (z : Z) := Some (i64_of_Z (i64_to_Z s + z), None) in
  match c with
  | CSet v => Some (v, None)
  | CInc => upd 1
  | CDec => upd (-1)
  | CAdd d => upd (i64_to_Z d)
  | CSub d => upd (- i64_to_Z d)
  | CGet => Some (s, Some s)
  | _ => None
  end.
Definition gauge_step_float (s : f64) (c : call) : option (f64 * option N) :=
  match c with
  | CSet v => Some (bits2f v, None)
  | CInc => Some ((s + 1)%float, None)
  | CDec => Some ((s - 1)%float, None)
  | CAdd d => Some ((s + bits2f d)%float, None)
  | CSub d => Some ((s - bits2f d)%float, None)
  | CGet => Some (s, Some (f2bits s))
  | _ => None
  end.

Definition gauge_call (c : call) : bool :=
  match c with CSet _ | CInc | CDec | CAdd _ | CSub _ | CGet => true | _ => false end.
Definition is_set (c : call) : bool := match c with CSet _ => true | _ => false end.

(* signed exact amount of an arithmetic call *)
Definition sdec (isf : bool) (b : N) : option Z := if isf then qfloat b else Some (i64_to_Z b).
Definition arith_amount (isf : bool) (c : call) : option (option Z) :=
  match c with
  | CInc => Some (Some (qone isf))
  | CDec => Some (Some (- qone isf))
  | CAdd d => Some (sdec isf d)
  | CSub d => Some (match sdec isf d with Some q => Some (- q) | None => None end)
  | _ => None
  end.
Definition is_arith_call (c : call) : bool := match arith_amount false c with Some _ => true | None => false end.
Definition amount0 (isf : bool) (c : crec) : Z := match arith_amount isf (c_call c) with Some (Some q) => q | _ => 0 end.

(* without any set in the trace: a read = completed amounts + some subset of the overlapping ones (no update lost, none twice) *)
Definition gauge_read_ok (isf : bool) (cs : list crec) (g : crec) : bool :=
  match c_res g, c_ret g with
  | Some _, RVal v =>
      match sdec isf v with
      | None => false
      | Some x =>
          let ar := filter (fun c => is_arith_call (c_call c)) cs in
          let sure := filter (fun c => returned_before c g) ar in
          let maybe := filter (fun c => negb (returned_before c g) && negb (invoked_after_return c g)) ar in
          subset_sum (map (amount0 isf) maybe) (fold_left Z.add (map (amount0 isf) sure) 0) x
      end
  | Some _, _ => false
  | None, _ => true
  end.
Definition small_amounts (isf : bool) (cs : list crec) : bool :=
  forallb (fun c => match arith_amount isf (c_call c) with Some None => false | _ => true end) cs
  && (if isf then exact_window (map (amount0 isf) cs)                                   (* exact binary64 sums *)
      else forallb (fun c => Z.abs (amount0 isf c) <? 2 ^ 45) cs).                       (* no i64 wrap-around *)

Definition search_limit11 : nat := 12.

Definition spec_c11 (isf : bool) (es : list event) : bool :=
  let '(cs, ok) := calls_of es O [] in
  ok
  && forallb (fun c => gauge_call (c_call c)) cs
  && (if negb (existsb (fun c => is_set (c_call c)) cs) && small_amounts isf cs
      then forallb (fun g => if is_get (c_call g) then gauge_read_ok isf cs g else true) cs else true)
  && (if Nat.leb (length cs) search_limit11 then
        (if isf then lin_search f64 gauge_step_float same_float (Datatypes.S (length cs)) cs 0%float
         else lin_search N gauge_step_int same_int (Datatypes.S (length cs)) cs 0%N)
      else true).
