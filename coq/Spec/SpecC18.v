(* Executable statement of C18 on a scenario and the observations the IMPLEMENTATION produced.
   Written from the property text:

     "A histogram timer, shared or local, contributes exactly one observation of a non-negative
      number of seconds when it is stopped with observe_duration or stop_and_record or simply
      dropped, on whichever thread that happens, and contributes nothing when stopped with
      stop_and_discard; observe_closure_duration contributes exactly one observation and returns
      the closure's result."

   The books of Spec/SpecC12.v are kept from the operations alone: per shared histogram its count,
   its sum and the values that reached it - direct observations, flushed local batches, and ONE
   observation of the elapsed seconds (the scenario's input to Instant::elapsed, as
   Duration::as_secs_f64 reads it) per timer ended by record / observe / drop, going to the SHARED
   histogram also for a local timer; nothing for a discarded timer; one observation per closure
   (directly for a shared handle, into the pending batch for a local one).
   Judged: every count / sum / collection shown for a shared or local histogram after any
   operation; the seconds returned by stop_and_record and stop_and_discard (equal to the elapsed
   input, not negative); that the closure form hands back the closure's result (the harness reports
   OUnit exactly when it got the closure's value back). *)
Require Import PV.Base.Prelude PV.Base.F64 PV.Model.Proto PV.Model.Desc PV.Model.Value PV.Model.Hist PV.Model.Vec PV.Model.Registry PV.Model.World.
Require Import PV.Spec.SpecC12.
Open Scope N_scope.

Definition spec_c18 (ops : list op) (obs : list obs) : bool :=
  (length ops =? length obs)%nat && forallb (fun c : check => snd c) (acct ops obs).
