(* Executable statements of C02 / C03 on a trace of the IMPLEMENTATION, using only the call and
   return markers and the returned values (not the atomic steps).  Observation values in the
   generated scenarios are +-2^k with pairwise distinct exponents k < 63 (the sign of each
   exponent is fixed by the scenario: the value list of the calls invoked so far), so the set S a
   snapshot describes can be decoded from its sum = sum over S of sign_k 2^k: going up from
   exponent 0, the lowest set bit of the residue names the next member (subset sums of such
   values are unique: two different subsets differ first at some exponent k, by +-2^k modulo
   2^(k+1)).  A decoded set is represented by its mask = sum of |v| over S. *)
Require Import PV.Base.Prelude PV.Base.F64 PV.Model.Conc PV.Model.HistExec.
From Coq Require Import ZArith Lia.
Open Scope Z_scope.

Record ocall := { oc_t : nat; oc_vals : list Z; oc_done : bool }.   (* an observe (one value) or flush (batch) call *)
Record ccall := { cc_t : nat; cc_done_at_call : list (list Z);        (* value lists of calls that had returned when invoked *)
                  cc_prev : list Z;                                    (* sums of collections that had returned when invoked *)
                  cc_quiet : bool }.                                   (* no other call pending at invocation and none invoked since *)

Record sst := { s_obs : list ocall;           (* all observe / flush calls invoked so far, in invocation order *)
                s_col : list ccall;           (* collections in progress *)
                s_sums : list Z;              (* sums returned by finished collections *)
                s_pending : list nat;         (* threads with a call in progress *)
                s_reads : list (nat * bool);  (* pending scount / ssum: thread, quiet flag *)
                s_ok : bool }.

Definition member (mask v : Z) : bool := Z.testbit mask (Z.log2 (Z.abs v)).
Definition all_in (sum : Z) (vs : list Z) : bool := forallb (member sum) vs.
Definition none_in (sum : Z) (vs : list Z) : bool := forallb (fun v => negb (member sum v)) vs.
Definition count_in (sum : Z) (p : Z -> bool) (obs : list ocall) : Z :=
  fold_left (fun a oc => fold_left (fun a v => if member sum v && p v then a + 1 else a) (oc_vals oc) a) obs 0.
Definition total_mask (obs : list ocall) : Z := fold_left (fun a oc => fold_left (fun a v => a + Z.abs v) (oc_vals oc) a) obs 0.
Definition total_sum (obs : list ocall) : Z := fold_left (fun a oc => fold_left Z.add (oc_vals oc) a) obs 0.
Definition all_vals (obs : list ocall) : list Z := flat_map oc_vals obs.

(* decode a reported sum into the mask of the set it describes, None if it is no subset sum of the invoked values *)
Fixpoint decode_from (fuel : nat) (k : Z) (vals : list Z) (resid mask : Z) : option Z :=
  match fuel with
  | O => if resid =? 0 then Some mask else None
  | S f =>
      if Z.testbit resid k then
        match find (fun v => Z.abs v =? 2 ^ k) vals with
        | Some v => decode_from f (k + 1) vals (resid - v) (mask + 2 ^ k)
        | None => None
        end
      else decode_from f (k + 1) vals resid mask
  end.
Definition decode (obs : list ocall) (sum : Z) : option Z := decode_from 64 0 (all_vals obs) sum 0.

Fixpoint zvals (bs : list N) : option (list Z) :=
  match bs with
  | [] => Some []
  | b :: r => match z_of_bits b, zvals r with Some v, Some l => Some (v :: l) | _, _ => None end
  end.
Fixpoint remove_nat (t : nat) (l : list nat) : list nat :=
  match l with [] => [] | u :: r => if Nat.eqb u t then r else u :: remove_nat t r end.

(* per-thread prefix closure: walking a thread's calls in invocation order, once a call is
   outside S every later one is; a call's values are in S all together or not at all *)
Fixpoint thread_closed (sum : Z) (t : nat) (obs : list ocall) (still_in : bool) : bool :=
  match obs with
  | [] => true
  | oc :: r =>
      if Nat.eqb (oc_t oc) t then
        let a := all_in sum (oc_vals oc) in let z := none_in sum (oc_vals oc) in
        (a || z) && (if a then still_in else true) && thread_closed sum t r (still_in && a)
      else thread_closed sum t r still_in
  end.

Section W.
Variable bounds : list Z.

Definition check_snapshot (s : sst) (cc : ccall) (cnt sum : Z) (bks : list Z) : bool :=
  let obs := s_obs s in
  (* S (given by its mask, decoded from the sum) only contains invoked observations; count, buckets *)
  (Z.land sum (Z.lnot (total_mask obs)) =? 0)
  && (cnt =? count_in sum (fun _ => true) obs)
  && (Nat.eqb (length bks) (length bounds))
  && forallb (fun bb => snd bb =? count_in sum (fun v => v <=? fst bb) obs) (combine bounds bks)
  (* every observation completed before the collection started is in S *)
  && forallb (all_in sum) (cc_done_at_call cc)
  (* per-thread prefix closure, batches atomic *)
  && forallb (fun oc => thread_closed sum (oc_t oc) obs true) obs
  (* C03: grows over earlier snapshots *)
  && forallb (fun prev => Z.land prev (Z.lnot sum) =? 0) (cc_prev cc)
  (* C03: a collection that ran alone after everything finished describes exactly everything *)
  && (if cc_quiet cc then sum =? total_mask obs else true).

Definition others_idle (s : sst) (t : nat) : bool := forallb (fun u => Nat.eqb u t) (s_pending s).
(* an invocation by thread t: collections / reads of other threads are no longer "alone" *)
Definition disturb (s : sst) (t : nat) : sst :=
  {| s_obs := s_obs s;
     s_col := map (fun cc => if Nat.eqb (cc_t cc) t then cc else {| cc_t := cc_t cc; cc_done_at_call := cc_done_at_call cc; cc_prev := cc_prev cc; cc_quiet := false |}) (s_col s);
     s_sums := s_sums s; s_pending := s_pending s;
     s_reads := map (fun r => if Nat.eqb (fst r) t then r else (fst r, false)) (s_reads s); s_ok := s_ok s |}.

Definition sstep (s : sst) (e : event) : sst :=
  match e with
  | ECall t c =>
      let s := disturb s t in
      let quiet := is_nil (s_pending s) in
      let s' := {| s_obs := s_obs s; s_col := s_col s; s_sums := s_sums s; s_pending := t :: s_pending s; s_reads := s_reads s; s_ok := s_ok s |} in
      match c with
      | CObs b =>
          match z_of_bits b with
          | Some v => {| s_obs := s_obs s ++ [{| oc_t := t; oc_vals := [v]; oc_done := false |}]; s_col := s_col s; s_sums := s_sums s;
                         s_pending := t :: s_pending s; s_reads := s_reads s; s_ok := s_ok s |}
          | None => {| s_obs := s_obs s; s_col := s_col s; s_sums := s_sums s; s_pending := s_pending s; s_reads := s_reads s; s_ok := false |}
          end
      | CBatch bs =>
          match zvals bs with
          | Some vs => {| s_obs := s_obs s ++ [{| oc_t := t; oc_vals := vs; oc_done := false |}]; s_col := s_col s; s_sums := s_sums s;
                          s_pending := t :: s_pending s; s_reads := s_reads s; s_ok := s_ok s |}
          | None => {| s_obs := s_obs s; s_col := s_col s; s_sums := s_sums s; s_pending := s_pending s; s_reads := s_reads s; s_ok := false |}
          end
      | CCollect =>
          {| s_obs := s_obs s;
             s_col := {| cc_t := t; cc_done_at_call := map oc_vals (filter oc_done (s_obs s)); cc_prev := s_sums s; cc_quiet := quiet |} :: s_col s;
             s_sums := s_sums s; s_pending := t :: s_pending s; s_reads := s_reads s; s_ok := s_ok s |}
      | CSCount | CSSum =>
          {| s_obs := s_obs s; s_col := s_col s; s_sums := s_sums s; s_pending := t :: s_pending s; s_reads := (t, quiet) :: s_reads s; s_ok := s_ok s |}
      | _ => s'
      end
  | ERet t r =>
      let pend := remove_nat t (s_pending s) in
      match r with
      | RSnap cnt sum bks =>
          match find (fun cc => Nat.eqb (cc_t cc) t) (s_col s), match z_of_bits sum with Some z => decode (s_obs s) z | None => None end with
          | Some cc, Some mask =>
              {| s_obs := s_obs s; s_col := filter (fun cc => negb (Nat.eqb (cc_t cc) t)) (s_col s); s_sums := mask :: s_sums s; s_pending := pend;
                 s_reads := s_reads s; s_ok := s_ok s && check_snapshot s cc (Z.of_N cnt) mask (map Z.of_N bks) |}
          | _, _ => {| s_obs := s_obs s; s_col := s_col s; s_sums := s_sums s; s_pending := pend; s_reads := s_reads s; s_ok := false |}
          end
      | RVal b =>
          (* get_sample_count / get_sample_sum: checked when the read ran alone after everything finished *)
          match find (fun r => Nat.eqb (fst r) t) (s_reads s) with
          | Some (_, true) =>
              let okc := Z.of_N b =? count_in (total_mask (s_obs s)) (fun _ => true) (s_obs s) in
              let oks := match z_of_bits b with Some z => z =? total_sum (s_obs s) | None => false end in
              {| s_obs := s_obs s; s_col := s_col s; s_sums := s_sums s; s_pending := pend;
                 s_reads := filter (fun r => negb (Nat.eqb (fst r) t)) (s_reads s); s_ok := s_ok s && (okc || oks) |}
          | _ => {| s_obs := s_obs s; s_col := s_col s; s_sums := s_sums s; s_pending := pend;
                    s_reads := filter (fun r => negb (Nat.eqb (fst r) t)) (s_reads s); s_ok := s_ok s |}
          end
      | RUnit =>
          (* an observe / flush returned: mark the thread's last invoked call as completed *)
          let fix mark (l : list ocall) : list ocall :=
            match l with
            | [] => []
            | oc :: r => if Nat.eqb (oc_t oc) t && negb (oc_done oc) && negb (existsb (fun o => Nat.eqb (oc_t o) t && negb (oc_done o)) r)
                         then {| oc_t := t; oc_vals := oc_vals oc; oc_done := true |} :: r else oc :: mark r
            end in
          {| s_obs := mark (s_obs s); s_col := s_col s; s_sums := s_sums s; s_pending := pend; s_reads := s_reads s; s_ok := s_ok s |}
      | _ => {| s_obs := s_obs s; s_col := s_col s; s_sums := s_sums s; s_pending := pend; s_reads := s_reads s; s_ok := s_ok s |}
      end
  | EPanic _ | EStuck | EDeadlock | ELivelock | ENoHooks | EOther _ =>
      {| s_obs := s_obs s; s_col := s_col s; s_sums := s_sums s; s_pending := s_pending s; s_reads := s_reads s; s_ok := false |}
  | _ => s
  end.

Definition sinit : sst := {| s_obs := []; s_col := []; s_sums := []; s_pending := []; s_reads := []; s_ok := true |}.
Definition spec_hist (es : list event) : bool := s_ok (fold_left sstep es sinit).
End W.
