(* Executable statement of C12 (and the accounting engine C18 reuses) on a scenario and the
   observations the IMPLEMENTATION produced.  Written from the property text, not from Model/World.v:

     "a flush adds to the shared metric exactly what was accumulated since the previous flush or
      reset and a second flush adds nothing, reset/clear discards only unflushed local data, a clone
      starts empty, and dropping a local histogram (or a local histogram vector) flushes it.  The
      shared metric therefore always equals its own direct updates plus the total of the flushed
      batches."

   The spec keeps books from the OPERATIONS alone:
   - per shared counter: the value it must have = direct updates + flushed amounts;
   - per shared histogram: the values that must have reached it, its count and its sum (a direct
     observation adds its value, a flushed non-empty batch adds its own sum as one addend);
   - per local handle: what it accumulated since its creation / last flush / last reset;
   - per vector: its children by label-value tuple; per local vector: its cached locals by tuple;
   - per timer: the histogram it belongs to (a timer ended by record / observe / drop adds one
     observation of the elapsed seconds to the SHARED histogram, a discarded one adds nothing).
   Which constructors succeeded is read off the implementation's own answers (ORes (Ok tt)).
   Every value the implementation shows (get, get_sample_count, get_sample_sum, collect, on shared
   and on local handles, the seconds returned by a timer, the result of the closure form) is
   compared with the books.  Children of a vector are identified by their label-value tuple
   (distinct tuples are assumed not to collide under the 64-bit label hash: C05's business). *)
Require Import PV.Base.Prelude PV.Base.F64 PV.Model.Proto PV.Model.Desc PV.Model.Value PV.Model.Hist PV.Model.Vec PV.Model.Registry PV.Model.World.
Open Scope N_scope.

(* ---- the books ---- *)
Record hbook := mkHB { hb_count : N; hb_sum : f64; hb_vals : list f64 }.
Definition hb0 : hbook := mkHB 0 f_zero [].
Definition hb_observe (b : hbook) (v : f64) : hbook := mkHB (hb_count b + 1) (hb_sum b + v)%float (hb_vals b ++ [v]).
Definition batch_total (vals : list f64) : f64 := fold_left PrimFloat.add vals f_zero.
(* a batch reaches the histogram: its values, and its locally accumulated sum as ONE addend *)
Definition hb_batch (b : hbook) (vals : list f64) : hbook :=
  match vals with
  | [] => b
  | _ => mkHB (hb_count b + N.of_nat (length vals)) (hb_sum b + batch_total vals)%float (hb_vals b ++ vals)
  end.

Record vbook := mkVB { vb_names : list str; vb_hist : bool; vb_children : list (list str * nat) }.

Inductive sh :=
| SDead | SOther
| SCounter (m : nat) | SHist (m : nat) | SVec (v : nat)
| SLocalC (m : nat) (pend : numval)
| SLocalH (m : nat) (pend : list f64)
| SLocalCV (v : nat) (cache : list (list str * (nat * numval)))
| SLocalHV (v : nat) (cache : list (list str * (nat * list f64)))
| STimer (m : nat) | SLTimer (m : nat).

Record books := mkBooks { bk_c : list numval; bk_h : list hbook; bk_v : list vbook; bk_s : list sh }.
Definition books0 : books := mkBooks [] [] [] [].
Definition bk_push (b : books) (h : sh) : books := mkBooks (bk_c b) (bk_h b) (bk_v b) (bk_s b ++ [h]).
Definition bk_put (b : books) (i : nat) (h : sh) : books := mkBooks (bk_c b) (bk_h b) (bk_v b) (list_set (bk_s b) i h).
Definition bk_slot (b : books) (i : nat) : sh := nth i (bk_s b) SDead.
Definition bk_counter (b : books) (m : nat) : numval := nth m (bk_c b) (VU 0).
Definition bk_hist (b : books) (m : nat) : hbook := nth m (bk_h b) hb0.
Definition bk_set_counter (b : books) (m : nat) (x : numval) : books := mkBooks (list_set (bk_c b) m x) (bk_h b) (bk_v b) (bk_s b).
Definition bk_set_hist (b : books) (m : nat) (x : hbook) : books := mkBooks (bk_c b) (list_set (bk_h b) m x) (bk_v b) (bk_s b).
Definition bk_set_vec (b : books) (v : nat) (x : vbook) : books := mkBooks (bk_c b) (bk_h b) (list_set (bk_v b) v x) (bk_s b).
Definition vb_dummy : vbook := mkVB [] false [].
Definition bk_vec (b : books) (v : nat) : vbook := nth v (bk_v b) vb_dummy.

Definition nzero (x : numval) : numval := match x with VF _ => VF f_zero | VU _ => VU 0 | VI _ => VI 0%Z end.
Definition none_like (x : numval) : numval := match x with VF _ => VF f_one | VU _ => VU 1 | VI _ => VI 1%Z end.
Definition kzero (k : numkind) : numval := match k with NF => VF f_zero | NU => VU 0 | NI => VI 0%Z end.

Definition tuple_eqb (a b : list str) : bool := list_eqb str_eqb a b.
Fixpoint tlookup {V} (k : list str) (m : list (list str * V)) : option V :=
  match m with [] => None | (k', x) :: t => if tuple_eqb k k' then Some x else tlookup k t end.
Fixpoint tremove {V} (k : list str) (m : list (list str * V)) : list (list str * V) :=
  match m with [] => [] | (k', x) :: t => if tuple_eqb k k' then tremove k t else (k', x) :: tremove k t end.
Fixpoint tupdate {V} (k : list str) (x : V) (m : list (list str * V)) : list (list str * V) :=
  match m with [] => [] | (k', y) :: t => if tuple_eqb k k' then (k', x) :: t else (k', y) :: tupdate k x t end.

Definition is_ok (o : obs) : bool := match o with ORes (Ok _) => true | _ => false end.
Definition is_unit (o : obs) : bool := match o with OUnit => true | _ => false end.
Definition is_bad (o : obs) : bool := match o with OBad => true | _ => false end.

(* the child of vector [v] for a tuple: the existing one, or a new metric (a counter child starts at [z]) *)
Definition child_of (b : books) (v : nat) (vals : list str) (z : numval) : books * nat :=
  let vb := bk_vec b v in
  match tlookup vals (vb_children vb) with
  | Some m => (b, m)
  | None =>
      if vb_hist vb then
        let m := length (bk_h b) in
        (bk_set_vec (mkBooks (bk_c b) (bk_h b ++ [hb0]) (bk_v b) (bk_s b)) v
                    (mkVB (vb_names vb) true (vb_children vb ++ [(vals, m)])), m)
      else
        let m := length (bk_c b) in
        (bk_set_vec (mkBooks (bk_c b ++ [z]) (bk_h b) (bk_v b) (bk_s b)) v
                    (mkVB (vb_names vb) false (vb_children vb ++ [(vals, m)])), m)
  end.
(* value vectors remember the numeric flavour of their children here *)
Definition vkinds := list (nat * numkind).
Fixpoint vkind_of (v : nat) (ks : vkinds) : numkind := match ks with [] => NU | (v', k) :: t => if Nat.eqb v v' then k else vkind_of v t end.

Fixpoint values_in_order (names : list str) (kvs : list (str * str)) : option (list str) :=
  match names with
  | [] => Some []
  | n :: r => match alookup n kvs, values_in_order r kvs with Some x, Some t => Some (x :: t) | _, _ => None end
  end.

(* ---- judging what the implementation shows ---- *)
Definition count_le_spec (b : f64) (vals : list f64) : N := N.of_nat (length (filter (fun v => PrimFloat.leb v b) vals)).
Definition hist_ok (hb : hbook) (h : Histogram) : bool :=
  (h_count h =? hb_count hb) && f64_eqb (h_sum h) (hb_sum hb)
  && forallb (fun k => b_cum k =? count_le_spec (b_upper k) (hb_vals hb)) (h_bucket h).
Definition metric_hist_ok (hb : hbook) (m : Metric) : bool :=
  match m_histogram m with Some h => hist_ok hb h | None => false end.
Definition metric_counter_ok (x : numval) (m : Metric) : bool :=
  match m_counter m with Some v => f64_eqb v (num_to_f64 x) | None => false end.
(* every expected child is shown exactly once *)
Fixpoint remove_match {A} (ok : A -> Metric -> bool) (x : A) (ms : list Metric) : option (list Metric) :=
  match ms with
  | [] => None
  | m :: t => if ok x m then Some t else match remove_match ok x t with Some t' => Some (m :: t') | None => None end
  end.
Fixpoint match_all {A} (ok : A -> Metric -> bool) (expect : list A) (ms : list Metric) : bool :=
  match expect with
  | [] => is_nil ms
  | x :: r => match remove_match ok x ms with Some ms' => match_all ok r ms' | None => false end
  end.

(* kinds of checks, so that each property judges what it is about *)
Inductive ckind := KShared | KLocal | KTimer.
Definition check := (ckind * bool)%type.

Definition as_secs (secs nanos : N) : f64 := (f_of_N secs + f_of_N nanos / f_of_N 1000000000)%float.

(* flushing the cache of a local vector *)
Definition flush_cv (b : books) (cache : list (list str * (nat * numval))) : books :=
  fold_left (fun b0 e => let '(_, (m, p)) := e in bk_set_counter b0 m (num_add (bk_counter b0 m) p)) cache b.
Definition flush_hv (b : books) (cache : list (list str * (nat * list f64))) : books :=
  fold_left (fun b0 e => let '(_, (m, p)) := e in bk_set_hist b0 m (hb_batch (bk_hist b0 m) p)) cache b.

Definition acct_step (bk : books * vkinds) (o : op) (ob : obs) : (books * vkinds) * list check :=
  let '(b, ks) := bk in
  let same := ((b, ks), []) in
  let st (b' : books) := ((b', ks), @nil check) in
  match o with
  | OpCounter k _ => if is_ok ob then st (bk_push (mkBooks (bk_c b ++ [kzero k]) (bk_h b) (bk_v b) (bk_s b)) (SCounter (length (bk_c b))))
                     else st (bk_push b SDead)
  | OpHistogram _ => if is_ok ob then st (bk_push (mkBooks (bk_c b) (bk_h b ++ [hb0]) (bk_v b) (bk_s b)) (SHist (length (bk_h b))))
                     else st (bk_push b SDead)
  | OpCounterVec k _ labels =>
      if is_ok ob then ((bk_push (mkBooks (bk_c b) (bk_h b) (bk_v b ++ [mkVB labels false []]) (bk_s b)) (SVec (length (bk_v b))),
                         (length (bk_v b), k) :: ks), [])
      else st (bk_push b SDead)
  | OpHistVec _ labels =>
      if is_ok ob then st (bk_push (mkBooks (bk_c b) (bk_h b) (bk_v b ++ [mkVB labels true []]) (bk_s b)) (SVec (length (bk_v b))))
      else st (bk_push b SDead)
  | OpGauge _ _ | OpGaugeVec _ _ _ | OpRegistry _ _ | OpCustom _ _ | OpPulling _ _ _ =>
      st (bk_push b (if is_ok ob then SOther else SDead))
  | OpWith s vals =>
      match bk_slot b s with
      | SVec v =>
          if is_ok ob then
            let '(b1, m) := child_of b v vals (kzero (vkind_of v ks)) in
            st (bk_push b1 (if vb_hist (bk_vec b v) then SHist m else SCounter m))
          else st (bk_push b SDead)
      | _ => st (bk_push b (if is_ok ob then SOther else SDead))
      end
  | OpWithMap s kvs =>
      match bk_slot b s with
      | SVec v =>
          match is_ok ob, values_in_order (vb_names (bk_vec b v)) (amap_of kvs) with
          | true, Some vals =>
              let '(b1, m) := child_of b v vals (kzero (vkind_of v ks)) in
              st (bk_push b1 (if vb_hist (bk_vec b v) then SHist m else SCounter m))
          | _, _ => st (bk_push b SDead)
          end
      | _ => st (bk_push b (if is_ok ob then SOther else SDead))
      end
  | OpRemove s vals =>
      match bk_slot b s with
      | SVec v => if is_ok ob then let vb := bk_vec b v in st (bk_set_vec b v (mkVB (vb_names vb) (vb_hist vb) (tremove vals (vb_children vb)))) else same
      | _ => same
      end
  | OpRemoveMap s kvs =>
      match bk_slot b s with
      | SVec v =>
          match is_ok ob, values_in_order (vb_names (bk_vec b v)) (amap_of kvs) with
          | true, Some vals => let vb := bk_vec b v in st (bk_set_vec b v (mkVB (vb_names vb) (vb_hist vb) (tremove vals (vb_children vb))))
          | _, _ => same
          end
      | _ => same
      end
  | OpReset s =>
      match bk_slot b s with
      | SVec v => let vb := bk_vec b v in st (bk_set_vec b v (mkVB (vb_names vb) (vb_hist vb) []))
      | SCounter m => st (bk_set_counter b m (nzero (bk_counter b m)))
      | _ => same
      end
  | OpInc s =>
      match bk_slot b s with
      | SCounter m => st (bk_set_counter b m (num_add (bk_counter b m) (none_like (bk_counter b m))))     (* a direct update *)
      | SLocalC m p => st (bk_put b s (SLocalC m (num_add p (none_like p))))
      | _ => same
      end
  | OpIncBy s d =>
      match bk_slot b s with
      | SCounter m => st (bk_set_counter b m (num_add (bk_counter b m) d))
      | SLocalC m p => st (bk_put b s (SLocalC m (num_add p d)))
      | _ => same
      end
  | OpGet s =>
      match bk_slot b s, ob with
      | SCounter m, ONum x => ((b, ks), [(KShared, numval_eqb x (bk_counter b m))])
      | SLocalC _ p, ONum x => ((b, ks), [(KLocal, numval_eqb x p)])
      | SCounter _, _ | SLocalC _ _, _ => ((b, ks), [(KShared, false)])
      | _, _ => same
      end
  | OpObserve s v =>
      match bk_slot b s with
      | SHist m => st (bk_set_hist b m (hb_observe (bk_hist b m) v))                                   (* a direct update *)
      | SLocalH m p => st (bk_put b s (SLocalH m (p ++ [v])))
      | _ => same
      end
  | OpSampleCount s =>
      match bk_slot b s, ob with
      | SHist m, ON n => ((b, ks), [(KShared, n =? hb_count (bk_hist b m))])
      | SLocalH _ p, ON n => ((b, ks), [(KLocal, n =? N.of_nat (length p))])
      | SHist _, _ | SLocalH _ _, _ => ((b, ks), [(KShared, false)])
      | _, _ => same
      end
  | OpSampleSum s =>
      match bk_slot b s, ob with
      | SHist m, OF64 x => ((b, ks), [(KShared, f64_eqb x (hb_sum (bk_hist b m)))])
      | SLocalH _ p, OF64 x => ((b, ks), [(KLocal, f64_eqb x (batch_total p))])
      | SHist _, _ | SLocalH _ _, _ => ((b, ks), [(KShared, false)])
      | _, _ => same
      end
  | OpLocal s =>
      match bk_slot b s with
      | SCounter m => st (bk_push b (SLocalC m (nzero (bk_counter b m))))
      | SHist m => st (bk_push b (SLocalH m []))
      | SVec v => st (bk_push b (if vb_hist (bk_vec b v) then SLocalHV v [] else SLocalCV v []))
      | _ => st (bk_push b SDead)
      end
  | OpFlush s =>
      match bk_slot b s with
      | SLocalC m p => st (bk_put (bk_set_counter b m (num_add (bk_counter b m) p)) s (SLocalC m (nzero p)))
      | SLocalH m p => st (bk_put (bk_set_hist b m (hb_batch (bk_hist b m) p)) s (SLocalH m []))
      | SLocalCV v cache => st (bk_put (flush_cv b cache) s (SLocalCV v (map (fun e => let '(t, (m, p)) := e in (t, (m, nzero p))) cache)))
      | SLocalHV v cache => st (bk_put (flush_hv b cache) s (SLocalHV v (map (fun e => let '(t, (m, _)) := e in (t, (m, []))) cache)))
      | _ => same
      end
  | OpClear s =>
      match bk_slot b s with
      | SLocalC m p => st (bk_put b s (SLocalC m (nzero p)))            (* only the local data goes *)
      | SLocalH m _ => st (bk_put b s (SLocalH m []))
      | _ => same
      end
  | OpClone s =>
      if is_bad ob then st (bk_push b SDead) else
      match bk_slot b s with
      | SLocalC m p => st (bk_push b (SLocalC m (nzero p)))             (* a clone starts empty *)
      | SLocalH m _ => st (bk_push b (SLocalH m []))
      | SLocalCV v _ => st (bk_push b (SLocalCV v []))
      | SLocalHV v _ => st (bk_push b (SLocalHV v []))
      | STimer _ | SLTimer _ | SDead => st (bk_push b SDead)
      | h => st (bk_push b h)
      end
  | OpDrop s =>
      match bk_slot b s with
      | SLocalH m p => st (bk_put (bk_set_hist b m (hb_batch (bk_hist b m) p)) s SDead)     (* dropping flushes *)
      | SLocalHV v cache => st (bk_put (flush_hv b cache) s SDead)
      | STimer _ | SLTimer _ | SDead => same
      | _ => st (bk_put b s SDead)
      end
  | OpLvInc s vals d =>
      match bk_slot b s with
      | SLocalCV v cache =>
          if is_unit ob && Nat.eqb (length vals) (length (vb_names (bk_vec b v))) then
            match tlookup vals cache with
            | Some (m, p) => st (bk_put b s (SLocalCV v (tupdate vals (m, num_add p d) cache)))
            | None =>
                let '(b1, m) := child_of b v vals (nzero d) in
                st (bk_put b1 s (SLocalCV v (cache ++ [(vals, (m, num_add (nzero d) d))])))
            end
          else same
      | _ => same
      end
  | OpLvObserve s vals x =>
      match bk_slot b s with
      | SLocalHV v cache =>
          if is_unit ob && Nat.eqb (length vals) (length (vb_names (bk_vec b v))) then
            match tlookup vals cache with
            | Some (m, p) => st (bk_put b s (SLocalHV v (tupdate vals (m, p ++ [x]) cache)))
            | None => let '(b1, m) := child_of b v vals (VU 0) in st (bk_put b1 s (SLocalHV v (cache ++ [(vals, (m, [x]))])))
            end
          else same
      | _ => same
      end
  | OpLvRemove s vals =>
      match bk_slot b s with
      | SLocalCV v cache =>
          if Nat.eqb (length vals) (length (vb_names (bk_vec b v))) then
            let b1 := bk_put b s (SLocalCV v (tremove vals cache)) in       (* the cached local counter is dropped: discarded *)
            let vb := bk_vec b1 v in
            st (if is_ok ob then bk_set_vec b1 v (mkVB (vb_names vb) (vb_hist vb) (tremove vals (vb_children vb))) else b1)
          else same
      | SLocalHV v cache =>
          if Nat.eqb (length vals) (length (vb_names (bk_vec b v))) then
            let b0 := match tlookup vals cache with Some (m, p) => bk_set_hist b m (hb_batch (bk_hist b m) p) | None => b end in
            let b1 := bk_put b0 s (SLocalHV v (tremove vals cache)) in      (* the cached local histogram is dropped: flushed *)
            let vb := bk_vec b1 v in
            st (if is_ok ob then bk_set_vec b1 v (mkVB (vb_names vb) (vb_hist vb) (tremove vals (vb_children vb))) else b1)
          else same
      | _ => same
      end
  | OpTimer s =>
      match bk_slot b s with
      | SHist m => st (bk_push b (STimer m))
      | SLocalH m _ => st (bk_push b (SLTimer m))
      | _ => st (bk_push b SDead)
      end
  | OpTimerStop s mode secs nanos =>
      match bk_slot b s with
      | STimer m | SLTimer m =>
          let e := as_secs secs nanos in
          let b1 := match mode with TDiscard => b | _ => bk_set_hist b m (hb_observe (bk_hist b m) e) end in
          let ret := match mode, ob with
                     | TRecord, OF64 x | TDiscard, OF64 x => f64_eqb x e && PrimFloat.leb f_zero x
                     | TObserve, OUnit | TDrop, OUnit => true
                     | _, _ => false
                     end in
          ((bk_put b1 s SDead, ks), [(KTimer, ret && PrimFloat.leb f_zero e)])
      | _ => same
      end
  | OpClosure s secs nanos =>
      match bk_slot b s with
      | SHist m => ((bk_set_hist b m (hb_observe (bk_hist b m) (as_secs secs nanos)), ks), [(KTimer, is_unit ob)])
      | SLocalH m p => ((bk_put b s (SLocalH m (p ++ [as_secs secs nanos])), ks), [(KTimer, is_unit ob)])
      | _ => same
      end
  | OpCollect s =>
      match bk_slot b s, ob with
      | SCounter m, OFamsU [f] => ((b, ks), [(KShared, match mf_metric f with [x] => metric_counter_ok (bk_counter b m) x | _ => false end)])
      | SHist m, OFamsU [f] => ((b, ks), [(KShared, match mf_metric f with [x] => metric_hist_ok (bk_hist b m) x | _ => false end)])
      | SVec v, OFamsU [f] =>
          let vb := bk_vec b v in
          ((b, ks), [(KShared, if vb_hist vb then match_all metric_hist_ok (map (fun e => bk_hist b (snd e)) (vb_children vb)) (mf_metric f)
                               else match_all metric_counter_ok (map (fun e => bk_counter b (snd e)) (vb_children vb)) (mf_metric f))])
      | SCounter _, _ | SHist _, _ | SVec _, _ => ((b, ks), [(KShared, false)])
      | _, _ => same
      end
  | _ => same
  end.

Fixpoint acct_run (bk : books * vkinds) (ops : list op) (obs : list obs) : list check :=
  match ops, obs with
  | o :: ops', ob :: obs' => let '(bk', cs) := acct_step bk o ob in cs ++ acct_run bk' ops' obs'
  | _, _ => []
  end.
Definition acct (ops : list op) (obs : list obs) : list check := acct_run (books0, []) ops obs.

(* C12: everything shown by shared metrics and by local handles agrees with the books *)
Definition spec_c12 (ops : list op) (obs : list obs) : bool :=
  (length ops =? length obs)%nat
  && forallb (fun c => match fst c with KShared | KLocal => snd c | KTimer => true end) (acct ops obs).
