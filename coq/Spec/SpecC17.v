(* Executable statement of C17 on (a) a history of API calls and the observations the
   IMPLEMENTATION returned for them, (b) one encoder call and what the implementation answered.
   Written from the property text: "every public function or method that returns Result (metric
   and vector constructors, get_metric_with_label_values, get_metric_with, remove_label_values,
   remove, register, unregister, Registry::new_custom, linear_buckets, exponential_buckets and
   both encoders) returns Err for invalid arguments or unsupported input and does not panic":
     1. no call of such a function panics or hangs (the harness prints OPanic / OHung / EPanic);
     2. a call whose arguments are invalid returns Err.  "Invalid" is spelled out here per function
        from its documentation, independently of the models: names outside the two regular
        languages, empty help, repeated label names, the reserved label le on histograms, a bucket
        list that is not strictly increasing or contains NaN, a number of label values / a set of
        label names other than the declared one, a registry prefix or common label name that is
        not a name, registering the same collector twice, unregistering from a registry nothing
        was registered in, count = 0 / width <= 0 / start <= 0 / factor <= 1 for the bucket
        helpers, a family without metrics or without a name for both encoders and of type UNTYPED
        for the text encoder, a writer that fails;
     3. such a call answers in the shape of a Result at all.
   The name languages and the acceptance condition of Desc::new are those of Spec/SpecC09.v
   (character classes on code points). *)
Require Import PV.Base.Prelude PV.Base.F64 PV.Model.Proto PV.Model.Desc PV.Model.Value PV.Model.Hist PV.Model.Vec
               PV.Model.Registry PV.Model.World PV.Model.Text.
Require Import PV.Spec.SpecC09.
Open Scope N_scope.

(* ---------------------------------------------------------------- what the harness printed *)
Definition is_err_obs (o : obs) : bool :=
  match o with ORes (Err _) => true | ODesc None => true | OBuckets None => true | _ => false end.
Definition is_ok_obs (o : obs) : bool :=
  match o with ORes (Ok _) => true | ODesc (Some _) => true | OBuckets (Some _) => true | _ => false end.
Definition is_panic_obs (o : obs) : bool := match o with OPanic | OHung => true | _ => false end.
Definition is_bad_obs (o : obs) : bool := match o with OBad => true | _ => false end.

(* ---------------------------------------------------------------- invalid arguments, per function *)
(* bucket lists: the default list replaces an empty one; otherwise every bound must be a number
   and strictly below its successor *)
Fixpoint adjacent_bad (bs : list f64) : bool :=
  match bs with
  | a :: ((b :: _) as r) => negb (PrimFloat.ltb a b) || adjacent_bad r
  | _ => false
  end.
Definition buckets_invalid (bs : list f64) : bool := existsb f_is_nan bs || adjacent_bad bs.

Definition opts_invalid (o : Opts) (vars : list str) : bool := negb (opts_accept_b o vars).
Definition le_used (o : Opts) (vars : list str) : bool := negb (no_le (map fst (o_consts o)) vars).

(* distinct keys of the list handed to HashMap::insert *)
Fixpoint dedup (l : list str) : list str :=
  match l with [] => [] | x :: r => if mem_str x r then dedup r else x :: dedup r end.
Definition map_invalid (declared : list str) (kvs : list (str * str)) : bool :=
  let keys := dedup (map fst kvs) in
  negb (Nat.eqb (length keys) (length declared)) || negb (forallb (fun n => mem_str n keys) declared).
Definition values_invalid (declared : list str) (vals : list str) : bool := negb (Nat.eqb (length vals) (length declared)).

Definition desc_args_invalid (d : str * str * list str * list (str * str)) : bool :=
  let '(fq, help, vars, consts) := d in negb (names_accept fq help (map fst consts) vars).

(* ---------------------------------------------------------------- what the statement tracks of a history *)
Inductive sslot :=
| SDead
| SOther
| SVec (declared : list str)
| SLocalVec (declared : list str)
| SReg (id : nat).
(* per registry: the slots registered successfully since the last successful unregister, and
   whether an unregister succeeded at all (after which the statement makes no demand on that
   registry: equal collectors may live in several slots) *)
Record sstate := mkSS { ss_slots : list sslot; ss_regs : list (list nat * bool) }.
Definition ss0 : sstate := mkSS [] [].
Definition ss_slot (s : sstate) (i : nat) : sslot := nth i (ss_slots s) SDead.
Definition ss_push (s : sstate) (x : sslot) : sstate := mkSS (ss_slots s ++ [x]) (ss_regs s).
Definition ss_reg (s : sstate) (id : nat) : list nat * bool := nth id (ss_regs s) ([], true).
Definition ss_set_reg (s : sstate) (id : nat) (x : list nat * bool) : sstate := mkSS (ss_slots s) (list_set (ss_regs s) id x).
Fixpoint mem_nat (x : nat) (l : list nat) : bool := match l with [] => false | y :: t => Nat.eqb x y || mem_nat x t end.

(* verdict on one Result-returning call: no panic, a Result-shaped answer, Err if [invalid] *)
Definition judge (invalid : bool) (ob : obs) : bool :=
  negb (is_panic_obs ob) && (is_bad_obs ob || ((is_ok_obs ob || is_err_obs ob) && (negb invalid || is_err_obs ob))).

Definition sstep (s : sstate) (o : op) (ob : obs) : sstate * bool :=
  let live := is_ok_obs ob in
  match o with
  | OpDesc fq help vars consts => (s, judge (desc_args_invalid (fq, help, vars, consts)) ob)
  | OpCounter _ o | OpGauge _ o =>
      (ss_push s (if live then SOther else SDead), judge (opts_invalid o (o_vars o) || negb (is_nil (o_vars o))) ob)
  | OpHistogram ho =>
      let o := ho_common ho in
      (ss_push s (if live then SOther else SDead),
       judge (opts_invalid o (o_vars o) || negb (is_nil (o_vars o)) || le_used o (o_vars o) || buckets_invalid (ho_buckets ho)) ob)
  | OpCounterVec _ o labels | OpGaugeVec _ o labels =>
      (ss_push s (if live then SVec labels else SDead), judge (opts_invalid o labels) ob)
  | OpHistVec ho labels =>
      let o := ho_common ho in
      (ss_push s (if live then SVec labels else SDead), judge (opts_invalid o labels || le_used o labels) ob)
  | OpWith sl vals =>
      (ss_push s (if live then SOther else SDead),
       match ss_slot s sl with SVec declared => judge (values_invalid declared vals) ob | _ => negb (is_panic_obs ob) end)
  | OpWithMap sl kvs =>
      (ss_push s (if live then SOther else SDead),
       match ss_slot s sl with SVec declared => judge (map_invalid declared kvs) ob | _ => negb (is_panic_obs ob) end)
  | OpRemove sl vals =>
      (s, match ss_slot s sl with SVec declared => judge (values_invalid declared vals) ob | _ => negb (is_panic_obs ob) end)
  | OpRemoveMap sl kvs =>
      (s, match ss_slot s sl with SVec declared => judge (map_invalid declared kvs) ob | _ => negb (is_panic_obs ob) end)
  | OpLvRemove sl vals =>
      (s, match ss_slot s sl with SLocalVec declared => judge (values_invalid declared vals) ob | _ => negb (is_panic_obs ob) end)
  | OpRegistry prefix labels =>
      (if live then mkSS (ss_slots s ++ [SReg (length (ss_regs s))]) (ss_regs s ++ [([], false)]) else ss_push s SDead,
       judge (negb (registry_accept prefix labels)) ob)
  | OpRegister r sl =>
      match ss_slot s r with
      | SReg id =>
          let '(regd, dirty) := ss_reg s id in
          (if live then ss_set_reg s id (sl :: regd, dirty) else s,
           judge (negb dirty && mem_nat sl regd) ob)                     (* the same collector twice *)
      | _ => (s, negb (is_panic_obs ob))
      end
  | OpUnregister r sl =>
      match ss_slot s r with
      | SReg id =>
          let '(regd, dirty) := ss_reg s id in
          (if live then ss_set_reg s id ([], true) else s,
           judge (negb dirty && is_nil regd) ob)                         (* nothing was registered *)
      | _ => (s, negb (is_panic_obs ob))
      end
  | OpCustom ds _ => (ss_push s (if live then SOther else SDead), judge (existsb desc_args_invalid ds) ob)
  | OpPulling name help _ => (ss_push s (if live then SOther else SDead), judge (negb (names_accept name help [] [])) ob)
  | OpLinearBuckets _ width count => (s, judge ((count =? 0) || PrimFloat.leb width f_zero) ob)
  | OpExpBuckets start factor count =>
      (s, judge ((count =? 0) || PrimFloat.leb start f_zero || PrimFloat.leb factor f_one) ob)
  (* operations that do not return Result: only the slot table is followed *)
  | OpLocal sl => (ss_push s (match ss_slot s sl with SVec d => SLocalVec d | SDead => SDead | _ => SOther end), true)
  | OpClone sl => (ss_push s (ss_slot s sl), true)
  | OpTimer _ => (ss_push s SOther, true)
  | OpDrop sl => (mkSS (list_set (ss_slots s) sl SDead) (ss_regs s), true)
  | _ => (s, true)
  end.

Fixpoint srun (s : sstate) (ops : list op) (obs : list obs) : bool :=
  match ops, obs with
  | [], [] => true
  | o :: ops', ob :: obs' => let '(s', ok) := sstep s o ob in ok && srun s' ops' obs'
  | _, _ => false          (* a trailing OHung / missing observations: the scenario did not finish *)
  end.

Definition spec_c17 (ops : list op) (obs : list obs) : bool := srun ss0 ops obs.

(* ---------------------------------------------------------------- the encoders *)
Inductive entry := EText | EUtf8 | EString | EPb.
(* one encoder scenario: the families, the contents of the buffer before the call, and what the
   implementation answered with a writer that never fails ([c_full]) and with a writer that fails
   once [c_budget] bytes were accepted ([c_limited]; entries without a writer argument: None) *)
Record enc_case := mkEnc {
  c_entry : entry; c_fams : list MetricFamily; c_prefill : list N; c_budget : N;
  c_full : eres; c_limited : option eres }.

Definition family_invalid (e : entry) (mf : MetricFamily) : bool :=
  is_nil (mf_metric mf) || is_nil (mf_name mf)
  || match e with EPb => false | _ => match mf_type mf with UNTYPED => true | _ => false end end.

Definition bytes_eqb (a b : list N) : bool := str_eqb a b.
Fixpoint is_prefix (p l : list N) : bool :=
  match p, l with
  | [], _ => true
  | x :: p', y :: l' => (x =? y) && is_prefix p' l'
  | _ :: _, [] => false
  end.
Definition eres_bytes (r : eres) : list N := match r with EOk o => o | EErr _ o => o | EPanic => [] end.
Definition eres_eqb (a b : eres) : bool :=
  match a, b with
  | EOk x, EOk y => bytes_eqb x y
  | EErr e x, EErr e' y => err_eqb e e' && bytes_eqb x y
  | EPanic, EPanic => true
  | _, _ => false
  end.

Definition spec_c17_enc (c : enc_case) : bool :=
  let invalid := existsb (family_invalid (c_entry c)) (c_fams c) in
  let full := c_full c in
  (* 1. no panic *)
  match full with EPanic => false | _ => true end
  && match c_limited c with Some EPanic => false | _ => true end
  (* 2. unsupported input is reported as Err (Error::Msg), and only that *)
  && match full with
     | EOk _ => negb invalid
     | EErr e _ => invalid && err_eqb e EMsg
     | EPanic => false
     end
  (* the writer is only appended to; encode_to_string returns nothing on Err *)
  && match c_entry c with
     | EString => match full with EErr _ out => is_nil out | _ => true end
     | _ => is_prefix (c_prefill c) (eres_bytes full)
     end
  (* 2'. a failing writer: the same answer if it was never asked for more than it accepts, else an Err
     (not the Msg kind) and what was accepted is the beginning of the unlimited output *)
  && match c_limited c with
     | None => true
     | Some lim =>
         let produced := skipn (length (c_prefill c)) (eres_bytes full) in
         if N.of_nat (length produced) <=? c_budget c then eres_eqb lim full
         else match lim with
              | EErr e out =>
                  negb (err_eqb e EMsg) && is_prefix (c_prefill c) out && is_prefix out (eres_bytes full)
                  && (N.of_nat (length out) <=? N.of_nat (length (c_prefill c)) + c_budget c)
              | _ => false
              end
     end.
