(* C20: (1) the executable spec, written from the property text, evaluated on what the IMPLEMENTATION
   did for one macro invocation and for its explicit-call twin; (2) the glue that evaluates the Coq
   model (the explicit-call term of the arm, Model/MacroCases.all_cases, under Model/Macros.eval_call)
   on the same argument values.

   One "arm run" of the harness (harness/src/mac.rs), for a register_* arm:
     macro side   [r0; r1; M; D; touch..; G0; G1; M'; G0'; G1']
     twin side    [r0; r1; C; R; D; touch..; G0; G1; C'; R'; G0'; G1']
   r0/r1  creation of the default registry's stand-in and of a fresh custom registry (prefix / common labels)
   M      the macro invocation: ORes (Ok tt) | ORes (Err e) | OPanic          C, R  explicit constructor, explicit register
   D      desc() of the returned handle (OBad without a handle)
   touch  an update through the handle: inc / observe, for vectors after with_label_values
   G0/G1  gather of the default registry / of the custom registry
   M'...  the same invocation a second time (a duplicate), and the gathers again
   For labels! / opts! / histogram_opts! arms both sides are the observation of the built value. *)
From Coq Require Import String.
Require Import PV.Base.Prelude PV.Base.F64.
Require Import PV.Model.Proto PV.Model.Desc PV.Model.Value PV.Model.Hist PV.Model.Vec PV.Model.Registry PV.Model.World.
Require Import PV.Model.MacroRules PV.Model.Macros PV.Model.MacroCases.
Open Scope list_scope.

Fixpoint obs_list_eqb (a b : list obs) : bool :=
  match a, b with
  | [], [] => true
  | x :: a', y :: b' => obs_eqb x y && obs_list_eqb a' b'
  | _, _ => false
  end.

(* ====================================================================================== *)
(* 1. the spec                                                                             *)
(* ====================================================================================== *)
Inductive armshape :=
| ShValue                          (* labels! / opts! / histogram_opts!: both sides observe the value built *)
| ShReg (with_registry vec : bool). (* register_*!: names a registry or not; vector (two touch observations) or not *)

Definition is_ok (o : obs) : bool := match o with ORes (Ok _) => true | _ => false end.
Definition is_empty_fams (o : obs) : bool := match o with OFams [] => true | _ => false end.
Definition nonempty_fams (o : obs) : bool := match o with OFams (_ :: _) => true | _ => false end.

(* what an invocation must evaluate to, given what the explicit constructor and the explicit register answered:
   Ok when both accepted, the register's Err when it refused; when the constructor itself refused there is no
   metric: anything but Ok *)
Definition result_matches (m c r : obs) : bool :=
  match c with
  | ORes (Ok _) => match r with
                   | ORes (Ok _) => is_ok m
                   | ORes (Err e) => match m with ORes (Err e') => err_eqb e e' | _ => false end
                   | _ => false
                   end
  | ORes (Err _) => negb (is_ok m)
  | _ => false
  end.

Definition is_ok_or_unit (o : obs) : bool := match o with ORes (Ok _) | OUnit => true | _ => false end.

Definition spec_c20 (sh : armshape) (mac twin : list obs) : bool :=
  match sh with
  | ShValue => obs_list_eqb mac twin
  | ShReg wr vec =>
      let nt := if vec then 2%nat else 1%nat in
      match mac, twin with
      | r0 :: r1 :: m :: d :: mrest, r0' :: r1' :: c :: r :: d' :: trest =>
          let mt := firstn nt mrest in let tt' := firstn nt trest in
          match skipn nt mrest, skipn nt trest with
          | [g0; g1; m2; g0b; g1b], [h0; h1; c2; rr2; h0b; h1b] =>
              let tgt (a b : obs) := if wr then b else a in
              let oth (a b : obs) := if wr then a else b in
              is_ok r0 && is_ok r1 && is_ok r0' && is_ok r1'
              && result_matches m c r
              (* the registry not named in the call never sees anything *)
              && is_empty_fams (oth g0 g1) && is_empty_fams (oth g0b g1b)
              && (if is_ok m then
                    (* same descriptor, same reaction to the update, the targeted registry gathers the updated
                       metric exactly as it does for the explicit call *)
                    obs_eqb d d' && obs_list_eqb mt tt'
                    && obs_eqb (tgt g0 g1) (tgt h0 h1)
                    && (negb (forallb is_ok_or_unit mt) || nonempty_fams (tgt g0 g1))
                    (* the duplicate is refused like the explicit duplicate, and changes nothing *)
                    && result_matches m2 c2 rr2 && negb (is_ok m2)
                    && obs_eqb (tgt g0b g1b) (tgt h0b h1b)
                  else
                    (* no metric: no handle, nothing registered anywhere, the second try fares the same *)
                    obs_eqb d OBad && is_empty_fams (tgt g0 g1) && is_empty_fams (tgt g0b g1b)
                    && result_matches m2 c2 rr2)
          | _, _ => false
          end
      | _, _ => false
      end
  end.

(* ====================================================================================== *)
(* 2. the model on the same argument values                                                *)
(* ====================================================================================== *)
(* one value set of the generator *)
Record vset := mkVS {
  vs_name : str; vs_help : str;                                (* NAME, HELP *)
  vs_ns : str; vs_sub : str; vs_ocon : list (str * str);       (* the OPTS / HOPTS value: namespace, subsystem, constant labels *)
  vs_maps : list (list (str * str));                           (* L1, L2, ...: the label maps given to opts! *)
  vs_cl : list (str * str);                                    (* CL: the map given to histogram_opts! *)
  vs_lp : list (str * str);                                    (* K1 => V1, ...: the pairs given to labels! *)
  vs_labels : list str; vs_vals : list str;                    (* LABELS, and the values used to reach a child *)
  vs_buckets : list f64; vs_x : f64;                           (* BUCKETS, and the observed value *)
  vs_prefix : option str; vs_rlabels : option (list (str * str)) }.   (* the custom registry REG *)

Open Scope string_scope.
Definition digit_of (a : string) : nat :=
  match a with
  | String _ (String d EmptyString) => Ascii.nat_of_ascii d - 49
  | _ => 0
  end.
Definition head_is (c : string) (a : string) : bool :=
  match a with String x (String _ EmptyString) => String.eqb (String x EmptyString) c | _ => false end.

Definition rho_of (vs : vset) : valuation :=
  let o := mkOpts (vs_ns vs) (vs_sub vs) (vs_name vs) (vs_help vs) (amap_of (vs_ocon vs)) [] in
  mkVal (fun a => if String.eqb a "NAME" then vs_name vs else if String.eqb a "HELP" then vs_help vs
                  else if head_is "K" a then fst (nth (digit_of a) (vs_lp vs) ([], []))
                  else if head_is "V" a then snd (nth (digit_of a) (vs_lp vs) ([], []))
                  else [])
        (fun a => if String.eqb a "CL" then amap_of (vs_cl vs) else amap_of (nth (digit_of a) (vs_maps vs) []))
        (fun _ => vs_labels vs) (fun _ => vs_buckets vs) (fun _ => o) (fun _ => mkHOpts o (vs_buckets vs))
        (fun _ => 1%nat).

Definition touch_ops (k : mkind) (vs : vset) : list op :=
  match k with
  | KCounter | KIntCounter | KGauge | KIntGauge => [OpInc 2]
  | KHistogram => [OpObserve 2 (vs_x vs)]
  | KCounterVec | KIntCounterVec | KGaugeVec | KIntGaugeVec => [OpWith 2 (vs_vals vs); OpInc 3]
  | KHistogramVec => [OpWith 2 (vs_vals vs); OpObserve 3 (vs_x vs)]
  end.

(* slot 0: the default registry; slot 1: the custom registry; the invocation; desc of the handle; an update
   through it; both gathers; the same invocation again; both gathers *)
Definition inv_mops (c : callx) (vs : vset) : list mop :=
  [MOp (OpRegistry None None); MOp (OpRegistry (vs_prefix vs) (vs_rlabels vs)); MCall c; MOp (OpDescOf 2)]
  ++ map MOp (touch_ops (c_kind c) vs)
  ++ [MOp (OpGather 0); MOp (OpGather 1); MCall c; MOp (OpGather 0); MOp (OpGather 1)].

Fixpoint count_atoms (l : list tt) : nat :=
  match l with [] => 0 | A _ :: r => S (count_atoms r) | _ :: r => count_atoms r end.
Definition find_case (m : string) (arm natoms : nat) : option icase :=
  find (fun c => String.eqb (i_macro c) m && Nat.eqb (i_arm c) arm && Nat.eqb (count_atoms (i_args c)) natoms && i_public c) all_cases.

(* what the model says the macro side of an arm run observes *)
Definition model_macro (vs : vset) (m : string) (arm natoms : nat) : list obs :=
  match find_case m arm natoms with
  | None => [OBad]
  | Some c =>
      let rho := rho_of vs in
      match i_nf c with
      | NCall cx => mrun rho 0 world0 (inv_mops cx vs)
      | NOpts o => opts_obs (ev_opts rho o)
      | NHOpts h => hopts_obs (ev_hopts rho h)
      | NLabels l => map_obs (ev_lbl rho l)
      end
  end.

(* ====================================================================================== *)
(* 3. the explicit calls of the twin as operations of the world model                      *)
(* ====================================================================================== *)
Open Scope N_scope.
(* every register arm runs under its own metric name <name>_<arm id> (the default registry is process-wide and
   remembers the label dimensions of every name it has seen); the harness does the same *)
Fixpoint dec_digits (fuel : nat) (n : N) (acc : str) : str :=
  match fuel with
  | O => acc
  | S f => let acc' := (48 + n mod 10) :: acc in if n / 10 =? 0 then acc' else dec_digits f (n / 10) acc'
  end.
Definition arm_vs (vs : vset) (id : N) : vset :=
  mkVS (vs_name vs ++ [95] ++ dec_digits 20 id [])%list (vs_help vs) (vs_ns vs) (vs_sub vs) (vs_ocon vs) (vs_maps vs) (vs_cl vs) (vs_lp vs)
       (vs_labels vs) (vs_vals vs) (vs_buckets vs) (vs_x vs) (vs_prefix vs) (vs_rlabels vs).

(* which explicit options the twin passes: name/help, the Opts value, name/help (histogram), name/help/buckets, the HistogramOpts value *)
Inductive oform := FN | FV | FHN | FHB | FHV.
Definition twin_ops (k : mkind) (f : oform) (wr : bool) (vs : vset) : list op :=
  let plain := mkOpts [] [] (vs_name vs) (vs_help vs) (amap_of []) [] in
  let val := mkOpts (vs_ns vs) (vs_sub vs) (vs_name vs) (vs_help vs) (amap_of (vs_ocon vs)) [] in
  let o := match f with FV => val | _ => plain end in
  let h := match f with
           | FHN => mkHOpts plain DEFAULT_BUCKETS  (* HistogramOpts::new *)
           | FHB => mkHOpts plain (vs_buckets vs)
           | _ => mkHOpts val (vs_buckets vs)
           end in
  let ctor := match k with
              | KCounter => OpCounter NF o | KIntCounter => OpCounter NU o
              | KGauge => OpGauge NF o | KIntGauge => OpGauge NI o
              | KHistogram => OpHistogram h
              | KCounterVec => OpCounterVec NF o (vs_labels vs) | KIntCounterVec => OpCounterVec NU o (vs_labels vs)
              | KGaugeVec => OpGaugeVec NF o (vs_labels vs) | KIntGaugeVec => OpGaugeVec NI o (vs_labels vs)
              | KHistogramVec => OpHistVec h (vs_labels vs)
              end in
  let r := if wr then 1%nat else 0%nat in
  let touch := touch_ops k vs in
  ([OpRegistry None None; OpRegistry (vs_prefix vs) (vs_rlabels vs); ctor; OpRegister r 2; OpDescOf 2] ++ touch
   ++ [OpGather 0; OpGather 1; ctor; OpRegister r (2 + length touch)%nat; OpGather 0; OpGather 1])%list.

(* one case of the per-run comparison *)
Inductive armkind := AValue | AReg (k : mkind) (f : oform).
Record armrun := mkRun {
  ar_vs : vset; ar_id : N; ar_macro : string; ar_arm : nat; ar_natoms : nat; ar_shape : armshape; ar_kind : armkind;
  ar_mac : list obs; ar_twin : list obs }.
Definition run_vs (c : armrun) : vset := match ar_kind c with AValue => ar_vs c | AReg _ _ => arm_vs (ar_vs c) (ar_id c) end.
(* what the model says the two sides of an arm run observe *)
Definition model_mac (c : armrun) : list obs := model_macro (run_vs c) (ar_macro c) (ar_arm c) (ar_natoms c).
Definition model_twin (c : armrun) : list obs :=
  match ar_kind c, ar_shape c with
  | AReg k f, ShReg wr _ => run world0 (twin_ops k f wr (run_vs c))
  | _, _ => model_mac c
  end.

(* the arms harness/src/mac.rs exercises (tools/c20_arms.py): macro, arm index, number of argument atoms, shape, kind.
   Every case of every run is checked to be in this table. *)
Open Scope string_scope.
Definition harness_table : list (string * nat * nat * armshape * armkind) :=
  [(("register_counter", 1%nat, 1%nat), ShReg false false, AReg KCounter FV);
   (("register_counter", 2%nat, 2%nat), ShReg false false, AReg KCounter FN);
   (("register_counter_with_registry", 1%nat, 2%nat), ShReg true false, AReg KCounter FV);
   (("register_counter_with_registry", 2%nat, 3%nat), ShReg true false, AReg KCounter FN);
   (("register_int_counter", 0%nat, 1%nat), ShReg false false, AReg KIntCounter FV);
   (("register_int_counter", 1%nat, 2%nat), ShReg false false, AReg KIntCounter FN);
   (("register_int_counter_with_registry", 0%nat, 2%nat), ShReg true false, AReg KIntCounter FV);
   (("register_int_counter_with_registry", 1%nat, 3%nat), ShReg true false, AReg KIntCounter FN);
   (("register_gauge", 0%nat, 1%nat), ShReg false false, AReg KGauge FV);
   (("register_gauge", 1%nat, 2%nat), ShReg false false, AReg KGauge FN);
   (("register_gauge_with_registry", 0%nat, 2%nat), ShReg true false, AReg KGauge FV);
   (("register_gauge_with_registry", 1%nat, 3%nat), ShReg true false, AReg KGauge FN);
   (("register_int_gauge", 0%nat, 1%nat), ShReg false false, AReg KIntGauge FV);
   (("register_int_gauge", 1%nat, 2%nat), ShReg false false, AReg KIntGauge FN);
   (("register_int_gauge_with_registry", 0%nat, 2%nat), ShReg true false, AReg KIntGauge FV);
   (("register_int_gauge_with_registry", 1%nat, 3%nat), ShReg true false, AReg KIntGauge FN);
   (("register_counter_vec", 0%nat, 2%nat), ShReg false true, AReg KCounterVec FV);
   (("register_counter_vec", 1%nat, 3%nat), ShReg false true, AReg KCounterVec FN);
   (("register_counter_vec_with_registry", 0%nat, 3%nat), ShReg true true, AReg KCounterVec FV);
   (("register_counter_vec_with_registry", 1%nat, 4%nat), ShReg true true, AReg KCounterVec FN);
   (("register_int_counter_vec", 0%nat, 2%nat), ShReg false true, AReg KIntCounterVec FV);
   (("register_int_counter_vec", 1%nat, 3%nat), ShReg false true, AReg KIntCounterVec FN);
   (("register_int_counter_vec_with_registry", 0%nat, 3%nat), ShReg true true, AReg KIntCounterVec FV);
   (("register_int_counter_vec_with_registry", 1%nat, 4%nat), ShReg true true, AReg KIntCounterVec FN);
   (("register_gauge_vec", 0%nat, 2%nat), ShReg false true, AReg KGaugeVec FV);
   (("register_gauge_vec", 1%nat, 3%nat), ShReg false true, AReg KGaugeVec FN);
   (("register_gauge_vec_with_registry", 0%nat, 3%nat), ShReg true true, AReg KGaugeVec FV);
   (("register_gauge_vec_with_registry", 1%nat, 4%nat), ShReg true true, AReg KGaugeVec FN);
   (("register_int_gauge_vec", 0%nat, 2%nat), ShReg false true, AReg KIntGaugeVec FV);
   (("register_int_gauge_vec", 1%nat, 3%nat), ShReg false true, AReg KIntGaugeVec FN);
   (("register_int_gauge_vec_with_registry", 0%nat, 3%nat), ShReg true true, AReg KIntGaugeVec FV);
   (("register_int_gauge_vec_with_registry", 1%nat, 4%nat), ShReg true true, AReg KIntGaugeVec FN);
   (("register_histogram", 0%nat, 2%nat), ShReg false false, AReg KHistogram FHN);
   (("register_histogram", 1%nat, 3%nat), ShReg false false, AReg KHistogram FHB);
   (("register_histogram", 2%nat, 1%nat), ShReg false false, AReg KHistogram FHV);
   (("register_histogram_with_registry", 0%nat, 3%nat), ShReg true false, AReg KHistogram FHN);
   (("register_histogram_with_registry", 1%nat, 4%nat), ShReg true false, AReg KHistogram FHB);
   (("register_histogram_with_registry", 2%nat, 2%nat), ShReg true false, AReg KHistogram FHV);
   (("register_histogram_vec", 0%nat, 2%nat), ShReg false true, AReg KHistogramVec FHV);
   (("register_histogram_vec", 1%nat, 3%nat), ShReg false true, AReg KHistogramVec FHN);
   (("register_histogram_vec", 2%nat, 4%nat), ShReg false true, AReg KHistogramVec FHB);
   (("register_histogram_vec_with_registry", 0%nat, 3%nat), ShReg true true, AReg KHistogramVec FHV);
   (("register_histogram_vec_with_registry", 1%nat, 4%nat), ShReg true true, AReg KHistogramVec FHN);
   (("register_histogram_vec_with_registry", 2%nat, 5%nat), ShReg true true, AReg KHistogramVec FHB);
   (("labels", 0%nat, 0%nat), ShValue, AValue);
   (("labels", 0%nat, 2%nat), ShValue, AValue);
   (("labels", 0%nat, 4%nat), ShValue, AValue);
   (("labels", 0%nat, 6%nat), ShValue, AValue);
   (("opts", 0%nat, 2%nat), ShValue, AValue);
   (("opts", 0%nat, 3%nat), ShValue, AValue);
   (("opts", 0%nat, 4%nat), ShValue, AValue);
   (("opts", 0%nat, 5%nat), ShValue, AValue);
   (("histogram_opts", 0%nat, 2%nat), ShValue, AValue);
   (("histogram_opts", 1%nat, 3%nat), ShValue, AValue);
   (("histogram_opts", 2%nat, 4%nat), ShValue, AValue)]%list.
Open Scope N_scope.
Definition shape_eqb (a b : armshape) : bool :=
  match a, b with
  | ShValue, ShValue => true
  | ShReg w v, ShReg w' v' => Bool.eqb w w' && Bool.eqb v v'
  | _, _ => false
  end.
Definition mkind_eqb (a b : mkind) : bool :=
  match a, b with
  | KCounter, KCounter | KIntCounter, KIntCounter | KGauge, KGauge | KIntGauge, KIntGauge | KHistogram, KHistogram
  | KCounterVec, KCounterVec | KIntCounterVec, KIntCounterVec | KGaugeVec, KGaugeVec | KIntGaugeVec, KIntGaugeVec
  | KHistogramVec, KHistogramVec => true
  | _, _ => false
  end.
Definition oform_eqb (a b : oform) : bool :=
  match a, b with FN, FN | FV, FV | FHN, FHN | FHB, FHB | FHV, FHV => true | _, _ => false end.
Definition armkind_eqb (a b : armkind) : bool :=
  match a, b with
  | AValue, AValue => true
  | AReg k f, AReg k' f' => mkind_eqb k k' && oform_eqb f f'
  | _, _ => false
  end.
Definition arm_in_table (c : armrun) : bool :=
  existsb (fun e : string * nat * nat * armshape * armkind =>
             let '(m, a, n, sh, k) := e in
             String.eqb m (ar_macro c) && Nat.eqb a (ar_arm c) && Nat.eqb n (ar_natoms c) && shape_eqb sh (ar_shape c)
             && armkind_eqb k (ar_kind c)) harness_table.

(* the side condition of the harness: the custom registry of the value set is accepted by Registry::new_custom
   (a valid prefix, valid common label names, no common label le) *)
Definition vs_in_domain (vs : vset) : bool :=
  match @reg_new_custom collector (vs_prefix vs) (match vs_rlabels vs with Some l => Some (amap_of l) | None => None end) with
  | Ok _ => true
  | Err _ => false
  end.

Definition chk_model (c : armrun) : bool :=
  arm_in_table c && vs_in_domain (ar_vs c)
  && obs_list_eqb (model_mac c) (ar_mac c) && obs_list_eqb (model_twin c) (ar_twin c).
Definition chk_spec (c : armrun) : bool := spec_c20 (ar_shape c) (ar_mac c) (ar_twin c).
