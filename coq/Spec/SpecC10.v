(* Executable statements of C10 on a trace of the IMPLEMENTATION, using only the call and return
   markers and the returned values (never the lock / atomic events, never the model).

   [spec_c10_strict]  = the property text read literally: there is ONE order of all atomic actions
     (get-or-create, update through the handle - the two calls that make up
     with_label_values(k).inc_by(d), in program order inside the harness call's window - remove,
     reset, and collect as ONE action returning keys AND values) consistent with program order and
     real time that a sequential map from label values to children reproduces.
   [spec_c10_relaxed] = the same with a collection split into an atomic key snapshot and the end of its
     per-child value reads (each shown value lies between the child's value at the two points).
   [known_c10]        = class predicate of the known finding C10-collect-values-not-snapshot: strict
     fails, relaxed holds, and some collection overlaps updates to two different label-value tuples.
   Both searches are budgeted depth-first searches; an exhausted budget answers Unknown, which counts
   as "pass" (never a false alarm) and is reported by [strict_unknown].
   [Proofs/VecConcStrict.v] proves that a NotFound answer is exact (no interleaving was skipped).

   Scenario convention (checked, see [incs_ok]): every  with_label_values(k).inc_by(d)  call of a
   scenario uses its own power of two d, so a collected value decodes into the set of updates the
   shown child has received.

   Checked, from the property text:
   - every call returns, nothing panics / deadlocks; result kinds (Err exactly for a wrong number
     of label values; remove is Ok / Err);
   - a collection never shows the same label values twice; a shown value consists only of updates
     issued for exactly these label values by calls invoked before the collection returned;
   - no lost update: an update whose call returned before a collection was invoked is visible in
     it unless a successful remove of the key / a reset could have been ordered in between;
   - removed-not-collected: a key removed (or a vector reset) before the collection was invoked is
     shown only if some get-or-create for it could have been ordered after the removal;
   - recreated-is-fresh: an update that completed before a removal that completed before the
     collection is never part of a shown value;
   - remove is Ok only if the key was requested before, and must be Ok if the key is certainly there;
   - for small traces: a search for a linearisation, i.e. an order of the calls' atomic actions
     (get-or-create, update through the handle, remove, reset, the key snapshot of a collection and
     the end of its value reads) consistent with program order and real time that a sequential
     map from label values to children reproduces.
     The values of ONE collection are read child by child, so they are only required to lie
     between the children's values at the key snapshot and at the end of the collection. *)
Require Import PV.Base.Prelude PV.Model.Conc.
Open Scope N_scope.

Definition skey := list str.
Fixpoint skey_eqb (a b : skey) : bool :=
  match a, b with
  | [], [] => true
  | x :: a', y :: b' => str_eqb x y && skey_eqb a' b'
  | _, _ => false
  end.

(* a completed call: thread, call, result, index of the call marker, index of the return marker *)
Record crec := { c_t : nat; c_call : call; c_ret : retv; c_ci : N; c_ri : N }.

Record xst := { x_open : list (nat * (call * N)); x_done : list crec; x_ok : bool }.
Fixpoint open_get (t : nat) (l : list (nat * (call * N))) : option (call * N) :=
  match l with [] => None | (u, x) :: r => if Nat.eqb u t then Some x else open_get t r end.
Fixpoint open_del (t : nat) (l : list (nat * (call * N))) : list (nat * (call * N)) :=
  match l with [] => [] | (u, x) :: r => if Nat.eqb u t then r else (u, x) :: open_del t r end.

Definition xstep (xi : xst * N) (e : event) : xst * N :=
  let (x, i) := xi in
  (match e with
   | ECall t c =>
       match open_get t (x_open x) with
       | None => {| x_open := (t, (c, i)) :: x_open x; x_done := x_done x; x_ok := x_ok x |}
       | Some _ => {| x_open := x_open x; x_done := x_done x; x_ok := false |}
       end
   | ERet t r =>
       match open_get t (x_open x) with
       | Some (c, ci) => {| x_open := open_del t (x_open x);
                            x_done := x_done x ++ [{| c_t := t; c_call := c; c_ret := r; c_ci := ci; c_ri := i |}]; x_ok := x_ok x |}
       | None => {| x_open := x_open x; x_done := x_done x; x_ok := false |}
       end
   | EAt _ _ _ _ _ _ _ _ | ELock _ _ _ _ | EUnlock _ _ _ => x
   | _ => {| x_open := x_open x; x_done := x_done x; x_ok := false |}      (* panic, stuck, deadlock, livelock, no hooks *)
   end, i + 1).

(* calls in return order; well-formed = every call returned and nothing went wrong *)
Definition extract (es : list event) : list crec * bool :=
  let x := fst (fold_left xstep es ({| x_open := []; x_done := []; x_ok := true |}, 0)) in
  (x_done x, x_ok x && is_nil (x_open x)).

(* ---- scenario convention: distinct powers of two below 2^63 *)
Definition pow2b (d : N) : bool := (0 <? d) && (d =? 2 ^ N.log2 d) && (d <? 2 ^ 63).
Definition incs (cs : list crec) : list N :=
  flat_map (fun c => match c_call c with CWithInc _ d => [d] | _ => [] end) cs.
Fixpoint nodupN (l : list N) : bool := match l with [] => true | x :: r => negb (memN x r) && nodupN r end.
Definition incs_ok (cs : list crec) : bool := forallb pow2b (incs cs) && nodupN (incs cs).
Definition has_bit (v d : N) : bool := N.testbit v (N.log2 d).

(* ---- result kinds *)
Definition kind_ok (nl : nat) (c : crec) : bool :=
  match c_call c, c_ret c with
  | CWithInc k _, RUnit => Nat.eqb (length k) nl
  | CWithInc k _, RErr => negb (Nat.eqb (length k) nl)
  | CRemove k, RUnit => Nat.eqb (length k) nl
  | CRemove k, RErr => true
  | CVReset, RUnit => true
  | CVCollect, RColl l => forallb (fun kv => Nat.eqb (length (fst kv)) nl) l
  | _, _ => false
  end.

Fixpoint mem_key (k : skey) (l : list skey) : bool :=
  match l with [] => false | x :: r => skey_eqb k x || mem_key k r end.
Fixpoint nodup_keys (l : list skey) : bool :=
  match l with [] => true | x :: r => negb (mem_key x r) && nodup_keys r end.
Fixpoint coll_get (k : skey) (l : list (skey * N)) : option N :=
  match l with [] => None | (k', v) :: r => if skey_eqb k k' then Some v else coll_get k r end.

Definition is_get (nl : nat) (k : skey) (c : crec) : bool :=
  match c_call c with CWithInc k' _ => skey_eqb k k' && Nat.eqb (length k') nl | _ => false end.
(* a call after whose linearisation k is certainly absent *)
Definition is_kill (nl : nat) (k : skey) (c : crec) : bool :=
  match c_call c with CRemove k' => skey_eqb k k' && Nat.eqb (length k') nl | CVReset => true | _ => false end.
(* a call that may make a present k absent *)
Definition may_kill (nl : nat) (k : skey) (c : crec) : bool :=
  match c_call c, c_ret c with CRemove k' , RUnit => skey_eqb k k' && Nat.eqb (length k') nl | CVReset, _ => true | _, _ => false end.
(* b may be linearised after a's start and before c's end: it overlaps the span from a's call marker to c's return *)
Definition between (a b c : crec) : bool := (c_ci a <? c_ri b) && (c_ci b <? c_ri c).

Section S.
Variable nl : nat.
Variable cs : list crec.

(* what a collection C showing l must satisfy *)
Definition coll_ok (C : crec) (l : list (skey * N)) : bool :=
  nodup_keys (map fst l)
  (* shown values consist of updates for exactly that key, invoked before the collection returned;
     a shown key was requested by somebody *)
  && forallb (fun kv =>
       existsb (fun w => is_get nl (fst kv) w && (c_ci w <? c_ri C)) cs
       && (snd kv <? 2 ^ 63)
       && forallb (fun w => match c_call w with
                            | CWithInc k d =>
                                if has_bit (snd kv) d then skey_eqb (fst kv) k && Nat.eqb (length k) nl && (c_ci w <? c_ri C) else true
                            | _ => true end) cs
       && (N.land (snd kv) (N.lnot (fold_left N.lor (incs cs) 0) 64) =? 0)) l
  (* no lost update *)
  && forallb (fun w => match c_call w with
                       | CWithInc k d =>
                           if Nat.eqb (length k) nl && (c_ri w <? c_ci C) && negb (existsb (fun r => may_kill nl k r && between w r C) cs)
                           then match coll_get k l with Some v => has_bit v d | None => false end
                           else true
                       | _ => true end) cs
  (* removed / reset children are not collected unless requested again *)
  && forallb (fun kv =>
       forallb (fun r => if is_kill nl (fst kv) r && (c_ri r <? c_ci C)
                         then existsb (fun w => is_get nl (fst kv) w && between r w C) cs else true) cs) l
  (* a child requested again after removal starts from zero *)
  && forallb (fun kv =>
       forallb (fun w => match c_call w with
                         | CWithInc k d =>
                             if has_bit (snd kv) d && skey_eqb (fst kv) k
                             then negb (existsb (fun r => is_kill nl k r && (c_ri w <? c_ci r) && (c_ri r <? c_ci C)) cs)
                             else true
                         | _ => true end) cs) l.

Definition remove_ok (R : crec) : bool :=
  match c_call R, c_ret R with
  | CRemove k, RUnit =>   (* Ok: somebody requested k before the removal returned *)
      existsb (fun w => is_get nl k w && (c_ci w <? c_ri R)) cs
  | CRemove k, RErr =>    (* Err although k is certainly present *)
      if Nat.eqb (length k) nl
      then negb (existsb (fun w => is_get nl k w && (c_ri w <? c_ci R)
                                   && negb (existsb (fun r => may_kill nl k r && negb (c_ci r =? c_ci R) && between w r R) cs)) cs)
      else true
  | _, _ => true
  end.

Definition pointwise : bool :=
  forallb (kind_ok nl) cs
  && forallb (fun c => match c_call c, c_ret c with CVCollect, RColl l => coll_ok c l | _, _ => true end) cs
  && forallb remove_ok cs.
End S.

(* ------------------------------------------------------------------ search for a linearisation *)
Inductive akind := KGet | KUpd | KRem | KReset | KSnap | KEnd | KColl.
Record act := { a_kind : akind; a_c : crec }.
(* strict: a collection is one action; relaxed: key snapshot, then end of the value reads *)
Definition acts_of (strict : bool) (nl : nat) (c : crec) : list act :=
  match c_call c with
  | CWithInc k _ => if Nat.eqb (length k) nl then [{| a_kind := KGet; a_c := c |}; {| a_kind := KUpd; a_c := c |}] else []
  | CRemove k => if Nat.eqb (length k) nl then [{| a_kind := KRem; a_c := c |}] else []
  | CVReset => [{| a_kind := KReset; a_c := c |}]
  | CVCollect => if strict then [{| a_kind := KColl; a_c := c |}] else [{| a_kind := KSnap; a_c := c |}; {| a_kind := KEnd; a_c := c |}]
  | _ => []
  end.

(* sequential map from label values to children: key -> child id; every child's value; the
   handle / key snapshot of each thread's current call *)
Record sst := { m_map : list (skey * N); m_val : list (N * N); m_next : N;
                m_handle : list (nat * N); m_snap : list (nat * list (skey * N)) }.
Fixpoint mget (k : skey) (m : list (skey * N)) : option N :=
  match m with [] => None | (k', v) :: r => if skey_eqb k k' then Some v else mget k r end.
Fixpoint mdel (k : skey) (m : list (skey * N)) : list (skey * N) :=
  match m with [] => [] | (k', v) :: r => if skey_eqb k k' then mdel k r else (k', v) :: mdel k r end.
Fixpoint nget {A} (d : A) (t : nat) (l : list (nat * A)) : A :=
  match l with [] => d | (u, x) :: r => if Nat.eqb u t then x else nget d t r end.
Fixpoint vget (c : N) (l : list (N * N)) : N :=
  match l with [] => 0 | (c', v) :: r => if c =? c' then v else vget c r end.
Fixpoint vadd (c d : N) (l : list (N * N)) : list (N * N) :=
  match l with [] => [] | (c', v) :: r => if c =? c' then (c', v + d) :: r else (c', v) :: vadd c d r end.
Definition subset_bits (a b : N) : bool := N.land a (N.lnot b 64) =? 0.

Definition apply_act (s : sst) (a : act) : option sst :=
  let c := a_c a in let t := c_t c in
  match a_kind a, c_call c, c_ret c with
  | KGet, CWithInc k _, _ =>
      match mget k (m_map s) with
      | Some ch => Some {| m_map := m_map s; m_val := m_val s; m_next := m_next s; m_handle := (t, ch) :: m_handle s; m_snap := m_snap s |}
      | None => Some {| m_map := (k, m_next s) :: m_map s; m_val := (m_next s, 0) :: m_val s; m_next := m_next s + 1;
                        m_handle := (t, m_next s) :: m_handle s; m_snap := m_snap s |}
      end
  | KUpd, CWithInc _ d, _ =>
      Some {| m_map := m_map s; m_val := vadd (nget 0 t (m_handle s)) d (m_val s); m_next := m_next s; m_handle := m_handle s; m_snap := m_snap s |}
  | KRem, CRemove k, r =>
      match mget k (m_map s), r with
      | Some _, RUnit => Some {| m_map := mdel k (m_map s); m_val := m_val s; m_next := m_next s; m_handle := m_handle s; m_snap := m_snap s |}
      | None, RErr => Some s
      | _, _ => None
      end
  | KReset, _, _ => Some {| m_map := []; m_val := m_val s; m_next := m_next s; m_handle := m_handle s; m_snap := m_snap s |}
  | KColl, _, RColl l =>
      (* ONE atomic collection: exactly the present keys, each once, each with exactly its child's current value *)
      if Nat.eqb (length l) (length (m_map s)) && nodup_keys (map fst l)
         && forallb (fun kv => match mget (fst kv) (m_map s) with Some ch => vget ch (m_val s) =? snd kv | None => false end) l
      then Some s else None
  | KSnap, _, RColl l =>
      (* exactly the present keys, each once; every update ordered before is visible *)
      if Nat.eqb (length l) (length (m_map s)) && nodup_keys (map fst l)
         && forallb (fun kv => match mget (fst kv) (m_map s) with Some ch => subset_bits (vget ch (m_val s)) (snd kv) | None => false end) l
      then Some {| m_map := m_map s; m_val := m_val s; m_next := m_next s; m_handle := m_handle s;
                   m_snap := (t, map (fun kv => (fst kv, match mget (fst kv) (m_map s) with Some ch => ch | None => 0 end)) l) :: m_snap s |}
      else None
  | KEnd, _, RColl l =>
      (* nothing is shown that the child has not received by the end of the collection *)
      let sn := nget [] t (m_snap s) in
      if forallb (fun kv => match mget (fst kv) sn with Some ch => subset_bits (snd kv) (vget ch (m_val s)) | None => false end) l
      then Some s else None
  | _, _, _ => None
  end.

(* thread-indexed remaining actions; an action may go next only if no other thread still owes an action of a call that
   returned before this action's call was invoked (real time); program order = the order of each thread's list *)
Fixpoint heads_ok (a : act) (rem : list (list act)) : bool :=
  match rem with
  | [] => true
  | [] :: r => heads_ok a r
  | (b :: _) :: r => negb (c_ri (a_c b) <? c_ci (a_c a)) && heads_ok a r
  end.
Fixpoint pop (i : nat) (rem : list (list act)) : option (act * list (list act)) :=
  match rem, i with
  | [], _ => None
  | l :: r, O => match l with [] => None | a :: l' => Some (a, l' :: r) end
  | l :: r, S i' => match pop i' r with Some (a, r') => Some (a, l :: r') | None => None end
  end.
Definition all_done (rem : list (list act)) : bool := forallb is_nil rem.

(* what the search looks for *)
Inductive lin_exists : sst -> list (list act) -> Prop :=
| lin_done s rem : all_done rem = true -> lin_exists s rem
| lin_step s rem i a rem' s' :
    pop i rem = Some (a, rem') -> heads_ok a rem = true -> apply_act s a = Some s' -> lin_exists s' rem' -> lin_exists s rem.

Inductive sres := Found | NotFound | Unknown.
(* try the candidates in turn; [k] explores the rest after one action was taken; the budget counts visited nodes *)
Fixpoint try_cands (k : sst -> list (list act) -> nat -> sres * nat) (s : sst) (rem : list (list act))
                   (cands : list nat) (bud : nat) : sres * nat :=
  match cands with
  | [] => (NotFound, bud)
  | i :: cs =>
      match bud with
      | O => (Unknown, O)
      | S b =>
          match pop i rem with
          | Some (a, rem') =>
              if heads_ok a rem then
                match apply_act s a with
                | Some s' =>
                    match k s' rem' b with
                    | (Found, b') => (Found, b')
                    | (Unknown, b') => (Unknown, b')
                    | (NotFound, b') => try_cands k s rem cs b'
                    end
                | None => try_cands k s rem cs b
                end
              else try_cands k s rem cs b
          | None => try_cands k s rem cs b
          end
      end
  end.
Fixpoint dfs (fuel : nat) (s : sst) (rem : list (list act)) (bud : nat) : sres * nat :=
  match fuel with
  | O => (Unknown, bud)
  | S f => if all_done rem then (Found, bud) else try_cands (dfs f) s rem (seq 0 (length rem)) bud
  end.

Fixpoint insert_ci (c : crec) (l : list crec) : list crec :=
  match l with [] => [c] | x :: r => if c_ci c <? c_ci x then c :: l else x :: insert_ci c r end.
Definition thread_acts (strict : bool) (nl : nat) (cs : list crec) (t : nat) : list act :=
  flat_map (acts_of strict nl) (fold_right insert_ci [] (filter (fun c => Nat.eqb (c_t c) t) cs)).
Definition max_tid (cs : list crec) : nat := fold_left (fun m c => Nat.max m (c_t c)) cs O.

Definition search_budget : nat := 300 * 100.
Definition sst0 : sst := {| m_map := []; m_val := []; m_next := 1; m_handle := []; m_snap := [] |}.
Definition all_acts (strict : bool) (nl : nat) (cs : list crec) : list (list act) :=
  map (thread_acts strict nl cs) (seq 0 (S (max_tid cs))).
Definition lin_search (strict : bool) (nl : nat) (cs : list crec) : sres :=
  let rem := all_acts strict nl cs in
  let n := fold_left (fun a l => (a + length l)%nat) rem O in
  fst (dfs (S n) sst0 rem search_budget).
(* the literal statement, as a proposition *)
Definition strict_linearisation_exists (nl : nat) (cs : list crec) : Prop := lin_exists sst0 (all_acts true nl cs).

(* ------------------------------------------------------------------ the specs *)
(* everything except the search; if the increments are not distinct powers of two the values cannot be decoded and
   only the value-independent parts are checked *)
Definition base_ok (nl : nat) (cs : list crec) (wf : bool) : bool :=
  wf && forallb (kind_ok nl) cs
  && (if incs_ok cs then pointwise nl cs
      else forallb (fun c => match c_ret c with RColl l => nodup_keys (map fst l) | _ => true end) cs).
Definition search_ok (strict : bool) (nl : nat) (cs : list crec) : bool :=
  if incs_ok cs then match lin_search strict nl cs with NotFound => false | _ => true end else true.

Definition spec_c10_relaxed (nl : nat) (es : list event) : bool :=
  let (cs, wf) := extract es in base_ok nl cs wf && search_ok false nl cs.
Definition spec_c10_strict (nl : nat) (es : list event) : bool :=
  let (cs, wf) := extract es in base_ok nl cs wf && search_ok true nl cs.
(* the strict search ran out of budget: counted as pass *)
Definition strict_unknown (nl : nat) (es : list event) : bool :=
  let (cs, wf) := extract es in
  base_ok nl cs wf && incs_ok cs && match lin_search true nl cs with Unknown => true | _ => false end.

(* some collection's window overlaps two updates to different label-value tuples *)
Definition is_upd (nl : nat) (c : crec) : bool := match c_call c with CWithInc k _ => Nat.eqb (length k) nl | _ => false end.
Definition upd_key (c : crec) : skey := match c_call c with CWithInc k _ => k | _ => [] end.
Definition overlaps (a b : crec) : bool := (c_ci a <? c_ri b) && (c_ci b <? c_ri a).
Definition collect_overlaps_two (nl : nat) (cs : list crec) : bool :=
  existsb (fun C => match c_call C with
                    | CVCollect =>
                        existsb (fun w1 => is_upd nl w1 && overlaps C w1 &&
                          existsb (fun w2 => is_upd nl w2 && overlaps C w2 && negb (skey_eqb (upd_key w1) (upd_key w2))) cs) cs
                    | _ => false end) cs.
Definition known_c10 (nl : nat) (es : list event) : bool :=
  negb (spec_c10_strict nl es) && spec_c10_relaxed nl es && collect_overlaps_two nl (fst (extract es)).

(* one pass for the check driver: 0 = strict holds, 3 = strict search out of budget (pass), 1 = strict fails and the case is in
   the known class, 2 = strict fails otherwise *)
Definition classify (nl : nat) (es : list event) : N :=
  let (cs, wf) := extract es in
  if negb (base_ok nl cs wf) then 2
  else if negb (incs_ok cs) then 0
  else match lin_search true nl cs with
       | Found => 0
       | Unknown => 3
       | NotFound =>
           if match lin_search false nl cs with NotFound => false | _ => true end && collect_overlaps_two nl cs then 1 else 2
       end.
