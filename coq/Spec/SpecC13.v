(* Executable statement of C13 on one scenario and the IMPLEMENTATION's answer.

   A scenario is a list of families (as a wire-level literal: which optional fields are set, and
   their values, doubles as 64-bit patterns), the bytes already in the writer, and what
   ProtobufEncoder::encode returned together with the writer's final contents.  Families that
   were built with the library's setters also come as a library-level literal (Model/Proto.v).

   Written from the property text, using only the independent wire decoder of Model/PbDecode.v
   (which is driven by the field table of proto/proto_model.proto) on the implementation's bytes:
   - "each family as one length-delimited MetricFamily message": what was appended to the writer
     splits into exactly as many  varint-length + body  frames as there are families, with no
     byte left over, and the body of frame i decodes to family i;
   - "decoding the byte stream yields exactly the gathered families, in order, with nothing else
     in the stream": the stream decoder returns exactly the list of families: same names, help,
     types, labels, values (bit for bit), bucket bounds and cumulative counts, timestamps, and
     the same fields unset; for setter-built families the decoded messages, read through the
     schema's accessors, are the library-level families;
   - "a family without a name or without samples is refused with an error": the result is an
     error exactly when some family has no name (unset or empty) or no metric; the families in
     front of the refused one have been written as above and nothing after them;
   - the encoder appends to the writer (the bytes that were there are untouched) and does not panic. *)
Require Import PV.Base.Prelude PV.Base.F64 PV.Base.Utf8 PV.Model.Proto PV.Model.Desc PV.Model.Value PV.Model.Pb PV.Model.PbDecode.
Open Scope N_scope.

Record c13_case := mkCase13 {
  c_prefill : list N;                       (* the writer's contents before the call *)
  c_lib : option (list MetricFamily);       (* the families as built through the library's setters, if they were *)
  c_pfams : list PFamily;                   (* the families, field by field *)
  c_res : pbres }.                          (* the implementation's answer *)

Definition res_bytes (r : pbres) : list N :=
  match r with POk b => b | PErr _ b => b | PPanic => [] end.

Fixpoint strip_prefix (p out : list N) : option (list N) :=
  match p, out with
  | [], _ => Some out
  | x :: p', y :: out' => if x =? y then strip_prefix p' out' else None
  | _ :: _, [] => None
  end.

(* ---------------------------------------------------------------- which families must be refused *)
Definition no_name (f : PFamily) : bool := match pf_name f with None => true | Some s => is_nil s end.
Definition no_samples (f : PFamily) : bool := is_nil (pf_metric f).
Definition must_refuse (f : PFamily) : bool := no_name f || no_samples f.
Fixpoint before_refused (fams : list PFamily) : list PFamily :=
  match fams with
  | [] => []
  | f :: r => if must_refuse f then [] else f :: before_refused r
  end.

(* ---------------------------------------------------------------- framing: varint length, body, ..., end *)
Fixpoint split_frames (fuel : nat) (bs : list N) : option (list (list N)) :=
  match bs with
  | [] => Some []
  | _ :: _ =>
      match fuel with
      | O => None
      | S f =>
          match decode_varint bs with
          | None => None
          | Some (len, r) =>
              match take_bytes len r with
              | None => None
              | Some (body, r') =>
                  match split_frames f r' with
                  | None => None
                  | Some more => Some (body :: more)
                  end
              end
          end
      end
  end.
Definition frame_is (body : list N) (f : PFamily) : bool :=
  match dec_Family body with Some g => pf_eqb g f | None => false end.
Fixpoint all2 {A B} (p : A -> B -> bool) (a : list A) (b : list B) : bool :=
  match a, b with
  | [], [] => true
  | x :: a', y :: b' => p x y && all2 p a' b'
  | _, _ => false
  end.
Definition one_frame_per_family (s : list N) (fams : list PFamily) : bool :=
  match split_frames (length s) s with
  | Some bodies => all2 frame_is bodies fams
  | None => false
  end.

(* ---------------------------------------------------------------- decoded messages read through the accessors *)
(* the library-level family a decoded message stands for; a setter-built family has every field set *)
Definition lib_lp (l : PLabelPair) : option LabelPair :=
  match plp_name l, plp_value l with Some n, Some v => Some (mkLP n v) | _, _ => None end.
Definition lib_value (o : option N) : option f64 := option_map bits2f o.
Definition lib_quantile (q : PQuantile) : option Quantile :=
  match pq_quantile q, pq_value q with Some a, Some b => Some (mkQuantile (bits2f a) (bits2f b)) | _, _ => None end.
Definition lib_bucket (b : PBucket) : option Bucket :=
  match pbk_cum b, pbk_upper b with Some c, Some u => Some (mkBucket c (bits2f u)) | _, _ => None end.
Definition lib_summary (s : PSummary) : option Summary :=
  match ps_count s, ps_sum s, mapM lib_quantile (ps_quantile s) with
  | Some c, Some x, Some qs => Some (mkSummary c (bits2f x) qs)
  | _, _, _ => None
  end.
Definition lib_hist (h : PHistogram) : option Histogram :=
  match ph_count h, ph_sum h, mapM lib_bucket (ph_bucket h) with
  | Some c, Some x, Some bs => Some (mkHist c (bits2f x) bs)
  | _, _, _ => None
  end.
(* optional sub-message: absent stays absent, present must read back completely *)
Definition lib_opt {A B} (f : A -> option B) (o : option A) : option (option B) :=
  match o with
  | None => Some None
  | Some a => match f a with Some b => Some (Some b) | None => None end
  end.
Definition lib_metric (m : PMetric) : option Metric :=
  match mapM lib_lp (pm_label m),
        lib_opt (fun g => lib_value (pg_value g)) (pm_gauge m),
        lib_opt (fun c => lib_value (pc_value c)) (pm_counter m),
        lib_opt lib_summary (pm_summary m),
        lib_opt (fun u => lib_value (pu_value u)) (pm_untyped m),
        lib_opt lib_hist (pm_histogram m) with
  | Some ls, Some g, Some c, Some s, Some u, Some h => Some (mkMetric ls g c s u h (pm_ts m))
  | _, _, _, _, _, _ => None
  end.
Definition lib_family (f : PFamily) : option MetricFamily :=
  match pf_name f, pf_help f, pf_type f, mapM lib_metric (pf_metric f) with
  | Some n, Some h, Some t, Some ms => Some (mkMF n h t ms)
  | _, _, _, _ => None
  end.
Definition reads_as (decoded : list PFamily) (fams : list MetricFamily) : bool :=
  match mapM lib_family decoded with
  | Some fs => list_eqb mf_eqb fs fams
  | None => false
  end.

(* ---------------------------------------------------------------- the stream written for [fams] *)
Definition stream_is (s : list N) (fams : list PFamily) (lib : option (list MetricFamily)) : bool :=
  match decode_stream s with
  | Some d =>
      list_eqb pf_eqb d fams
      && one_frame_per_family s fams
      && match lib with Some l => reads_as d (firstn (length fams) l) | None => true end
  | None => false
  end.

Definition spec_c13 (c : c13_case) : bool :=
  match c_res c with
  | PPanic => false
  | POk out =>
      negb (existsb must_refuse (c_pfams c))
      && match strip_prefix (c_prefill c) out with
         | Some s => stream_is s (c_pfams c) (c_lib c)
         | None => false
         end
  | PErr _ out =>
      existsb must_refuse (c_pfams c)
      && match strip_prefix (c_prefill c) out with
         | Some s => stream_is s (before_refused (c_pfams c)) (c_lib c)
         | None => false
         end
  end.

(* ---------------------------------------------------------------- correspondence (not part of the spec) *)
(* the model of the encoder produces the implementation's result and bytes; a setter-built family is
   the wire-level literal with every field set *)
Definition model_agrees (c : c13_case) : bool :=
  pbres_eqb (encode_to (c_prefill c) (c_pfams c)) (c_res c)
  && match c_lib c with
     | Some l => list_eqb pf_eqb (map pb_of_family l) (c_pfams c)
     | None => true
     end.

Definition show_family (f : PFamily) : PFamily := f.
