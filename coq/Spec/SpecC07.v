(* Executable statement of C07 (and the shared machinery of C14) on a scenario and the
   observations the IMPLEMENTATION produced for it.  Written from the property text:

     gather() returns one family per registered metric name that currently has at least one
     sample, in strictly increasing name order; each family holds every sample of every
     collector registered under that name exactly once, ordered lexicographically by label
     values, carries the declared help and type, and has the registry's prefix and common
     labels applied to every family and sample.  The result is the same for every
     registration order and every hash seed.

   What is taken from the model: the world state at the time of a gather, used ONLY to list the
   samples the registered collectors currently expose (collect_all = one collect() per
   registered collector, before any merging).  Everything the property is about - name order,
   sample order, pruning, completeness as a multiset, help/type, prefix, common labels and
   their order, equality across registries - is decided here, independently of
   Registry.gather_families.  Which collectors are registered where, and each registry's
   prefix / labels, are tracked from the operations and the implementation's own answers. *)
Require Import PV.Base.Prelude PV.Base.F64 PV.Model.Proto PV.Model.Desc PV.Model.Value PV.Model.Hist PV.Model.Vec
               PV.Model.Registry PV.Model.World.
Open Scope N_scope.

(* ---------- order predicates ---------- *)
Fixpoint adjacent {A} (f : A -> A -> bool) (l : list A) : bool :=
  match l with
  | x :: ((y :: _) as t) => f x y && adjacent f t
  | _ => true
  end.
(* strict lexicographic order on tuples of label values *)
Fixpoint vals_lt (a b : list str) : bool :=
  match a, b with
  | [], [] => false
  | [], _ :: _ => true
  | _ :: _, [] => false
  | x :: a', y :: b' => match str_cmp x y with Lt => true | Gt => false | Eq => vals_lt a' b' end
  end.
(* two neighbouring samples of a family: same number of labels, strictly increasing values
   (equal tuples would be one sample exposed twice) *)
Definition sample_lt (m1 m2 : Metric) : bool :=
  Nat.eqb (length (m_label m1)) (length (m_label m2))
  && vals_lt (map lp_value (m_label m1)) (map lp_value (m_label m2)).
Definition names_increasing (fams : list MetricFamily) : bool :=
  adjacent (fun a b => str_ltb (mf_name a) (mf_name b)) fams.

(* ---------- what the registry is expected to expose ---------- *)
Definition spec_prefix (p : option str) (n : str) : str :=
  match p with Some p => p ++ [0x5F] ++ n | None => n end.
(* the common labels as a map (later insertions override), in name order *)
Definition spec_common (l : option (list (str * str))) : list LabelPair :=
  match l with
  | None => []
  | Some kvs => map (fun kv => mkLP (fst kv) (snd kv)) (sort_by (fun a b => str_leb (fst a) (fst b)) (amap_of kvs))
  end.
Definition spec_relabel (common : list LabelPair) (m : Metric) : Metric :=
  mkMetric (m_label m ++ common) (m_gauge m) (m_counter m) (m_summary m) (m_untyped m) (m_histogram m) (m_ts m).

Definition sample := (str * Metric)%type.
Definition sample_eqb (a b : sample) : bool := str_eqb (fst a) (fst b) && metric_eqb (snd a) (snd b).
Definition flatten (fams : list MetricFamily) : list sample :=
  flat_map (fun g => map (fun m => (mf_name g, m)) (mf_metric g)) fams.
Definition expected_samples (p : option str) (l : option (list (str * str))) (collected : list MetricFamily) : list sample :=
  flat_map (fun f => map (fun m => (spec_prefix p (mf_name f), spec_relabel (spec_common l) m)) (mf_metric f)) collected.

(* help and type of a gathered family against the collectors that contribute to it;
   strict: all of them declare that help and type; relaxed (used only to delimit the known
   finding of C14): all declare that help, at least one declares that type *)
Definition help_type_ok (strict : bool) (p : option str) (collected : list MetricFamily) (g : MetricFamily) : bool :=
  let contrib := filter (fun f => str_eqb (spec_prefix p (mf_name f)) (mf_name g) && negb (is_nil (mf_metric f))) collected in
  negb (is_nil contrib)
  && forallb (fun f => str_eqb (mf_help f) (mf_help g)) contrib
  && (if strict then forallb (fun f => mtype_eqb (mf_type f) (mf_type g)) contrib
      else existsb (fun f => mtype_eqb (mf_type f) (mf_type g)) contrib).

Definition gather_ok (strict : bool) (p : option str) (l : option (list (str * str)))
                     (collected fams : list MetricFamily) : bool :=
  names_increasing fams
  && forallb (fun g => negb (is_nil (mf_metric g)) && adjacent sample_lt (mf_metric g)) fams
  && multiset_eqb sample_eqb (expected_samples p l collected) (flatten fams)
  && forallb (help_type_ok strict p collected) fams.

(* the samples currently exposed by the collectors registered in the registry of slot [r] *)
Definition collected_now (w : world) (r : nat) : option (list MetricFamily) :=
  match slot w r with
  | HRegistry ri =>
      match nth_error (w_reg w) ri with
      | Some rc => match collect_all w (r_collectors rc) with Some (fs, _) => Some fs | None => None end
      | None => None
      end
  | _ => None
  end.

(* ---------- tracking registries from the operations ---------- *)
Record reginfo := mkRI { ri_slot : nat; ri_prefix : option str; ri_labels : option (list (str * str)); ri_members : list nat }.
Fixpoint ri_find (r : nat) (regs : list reginfo) : option reginfo :=
  match regs with [] => None | x :: t => if Nat.eqb (ri_slot x) r then Some x else ri_find r t end.
Definition ri_update (r : nat) (f : list nat -> list nat) (regs : list reginfo) : list reginfo :=
  map (fun x => if Nat.eqb (ri_slot x) r then mkRI (ri_slot x) (ri_prefix x) (ri_labels x) (f (ri_members x)) else x) regs.
Fixpoint remove_nat (s : nat) (l : list nat) : list nat :=
  match l with [] => [] | x :: t => if Nat.eqb x s then t else x :: remove_nat s t end.

(* registries that must gather identically: same prefix, same label map, same registered set *)
Definition gkey := (option str * list LabelPair * list nat)%type.
Definition key_of (x : reginfo) : gkey := (ri_prefix x, spec_common (ri_labels x), sort_by Nat.leb (ri_members x)).
Definition gkey_eqb (a b : gkey) : bool :=
  let '(p, l, m) := a in let '(p', l', m') := b in
  opt_eqb str_eqb p p' && list_eqb lp_eqb l l' && list_eqb Nat.eqb m m'.

(* walks the scenario; [chk] judges one gather, [same] compares two gathers that were taken
   without any operation in between on registries with equal keys *)
Section Walk.
  Variable chk : world -> reginfo -> list MetricFamily -> bool.
  Variable same : list MetricFamily -> list MetricFamily -> bool.
  Fixpoint walk (w : world) (regs : list reginfo) (run : list (gkey * list MetricFamily))
                (ops : list op) (obs : list obs) : bool :=
    match ops, obs with
    | o :: ops', ob :: obs' =>
        let w' := fst (step w o) in
        match o, ob with
        | OpRegistry p l, ORes (Ok _) => walk w' (mkRI (length (w_slots w)) p l [] :: regs) [] ops' obs'
        | OpRegister r s, ORes (Ok _) => walk w' (ri_update r (fun m => s :: m) regs) [] ops' obs'
        | OpUnregister r s, ORes (Ok _) => walk w' (ri_update r (remove_nat s) regs) [] ops' obs'
        | OpGather r, OFams fams =>
            match ri_find r regs with
            | Some x =>
                chk w x fams
                && forallb (fun e => negb (gkey_eqb (fst e) (key_of x)) || same (snd e) fams) run
                && walk w' regs ((key_of x, fams) :: run) ops' obs'
            | None => walk w' regs [] ops' obs'
            end
        | _, _ => walk w' regs [] ops' obs'
        end
    | _, _ => true
    end.
End Walk.

Definition chk_c07 (strict : bool) (w : world) (x : reginfo) (fams : list MetricFamily) : bool :=
  match collected_now w (ri_slot x) with
  | Some collected => gather_ok strict (ri_prefix x) (ri_labels x) collected fams
  | None => true
  end.

Definition spec_c07 (ops : list op) (obs : list obs) : bool :=
  walk (chk_c07 true) (list_eqb mf_eqb) world0 [] [] ops obs.

(* ---------- the known class of C14: collectors of different kinds under one name ---------- *)
Inductive ckind := KCounter | KGauge | KHist.
Definition ckind_eqb (a b : ckind) : bool :=
  match a, b with KCounter, KCounter | KGauge, KGauge | KHist, KHist => true | _, _ => false end.
Definition is_ok (ob : obs) : bool := match ob with ORes (Ok _) => true | OUnit => true | _ => false end.
(* the slot appended by a constructor-like operation: kind and fully-qualified name if it is a collector *)
Definition slot_entry (o : op) (ob : obs) (slots : list (option (ckind * str))) : option (option (ckind * str)) :=
  let ok (e : ckind * str) := if is_ok ob then Some e else None in
  match o with
  | OpCounter _ o' | OpCounterVec _ o' _ => Some (ok (KCounter, opts_fq_name o'))
  | OpGauge _ o' | OpGaugeVec _ o' _ => Some (ok (KGauge, opts_fq_name o'))
  | OpHistogram ho | OpHistVec ho _ => Some (ok (KHist, opts_fq_name (ho_common ho)))
  | OpPulling n _ _ => Some (ok (KGauge, n))
  | OpWith s _ | OpWithMap s _ | OpClone s => Some (if is_ok ob then nth s slots None else None)
  | OpLocal _ | OpTimer _ | OpRegistry _ _ | OpCustom _ _ => Some None
  | _ => None
  end.
Fixpoint remove_entry (e : ckind * str) (l : list (ckind * str)) : list (ckind * str) :=
  match l with
  | [] => []
  | x :: t => if ckind_eqb (fst x) (fst e) && str_eqb (snd x) (snd e) then t else x :: remove_entry e t
  end.
Fixpoint mixed_walk (slots : list (option (ckind * str))) (regs : list (nat * list (ckind * str)))
                    (ops : list op) (obs : list obs) : bool :=
  match ops, obs with
  | o :: ops', ob :: obs' =>
      let slots' := match slot_entry o ob slots with Some e => slots ++ [e] | None => slots end in
      match o, ob with
      | OpRegistry _ _, ORes (Ok _) => mixed_walk slots' ((length slots, []) :: regs) ops' obs'
      | OpRegister r s, ORes (Ok _) =>
          match nth s slots None with
          | Some e =>
              existsb (fun x => Nat.eqb (fst x) r
                                && existsb (fun e' => str_eqb (snd e') (snd e) && negb (ckind_eqb (fst e') (fst e))) (snd x)) regs
              || mixed_walk slots' (map (fun x => if Nat.eqb (fst x) r then (fst x, e :: snd x) else x) regs) ops' obs'
          | None => mixed_walk slots' regs ops' obs'
          end
      | OpUnregister r s, ORes (Ok _) =>
          match nth s slots None with
          | Some e => mixed_walk slots' (map (fun x => if Nat.eqb (fst x) r then (fst x, remove_entry e (snd x)) else x) regs) ops' obs'
          | None => mixed_walk slots' regs ops' obs'
          end
      | _, _ => mixed_walk slots' regs ops' obs'
      end
  | _, _ => false
  end.
(* some registry holds, at some moment, two collectors of different kinds with one fq name *)
Definition mixed_kinds_registered (ops : list op) (obs : list obs) : bool := mixed_walk [] [] ops obs.

Definition mf_eqb_notype (a b : MetricFamily) : bool :=
  str_eqb (mf_name a) (mf_name b) && str_eqb (mf_help a) (mf_help b) && list_eqb metric_eqb (mf_metric a) (mf_metric b).
(* The known finding is delimited: the scenario is in the class AND everything except the
   family type is as the property demands (names, sample order, completeness, help, labels,
   equality across registries up to the type; the type is that of one of the collectors). *)
Definition known_mixed_kinds (ops : list op) (obs : list obs) : bool :=
  if mixed_kinds_registered ops obs
  then walk (chk_c07 false) (list_eqb mf_eqb_notype) world0 [] [] ops obs
  else false.
