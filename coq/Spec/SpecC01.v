(* Executable statement of C01 on a trace of the IMPLEMENTATION, using only the call / return markers and the
   returned values (never the atomic steps, never the model).  Written from the property text:

     "every completed inc/inc_by takes effect exactly once: after all threads finish the value equals the sum of all
      increments, and a value read concurrently equals the sum of a subset that contains every increment completed before
      the read began and none started after it returned.  Reads that follow one another in real time never decrease
      unless reset() intervened."

   Checks on a trace:
     (A) read-subset: for every completed read, value = (sum of the increments that returned before the read was invoked)
         + (sum of SOME subset of the increments that overlap the read); an increment invoked after the read returned is in
         neither set.  A read after all threads finished therefore has to return the sum of all increments.
         (skipped for a read that a reset may precede: the search (C) covers small traces with resets)
     (B) monotone reads: two completed reads ordered in real time, with no reset that may take effect between them,
         do not decrease.
     (C) for small traces (at most `search_limit` calls): existence of a linearisation - a total order of the calls,
         consistent with real time, whose one-at-a-time execution on "value := value + d / read / value := 0" returns
         exactly the values the implementation returned (search over all candidate orders).
   Amounts are compared exactly: integers as Z; a finite float m * 2^e is decoded to the integer m * 2^(e + 1074) (every
   finite binary64 is a multiple of 2^-1074, subnormals and amounts far below f64::EPSILON included).  Check (A) needs the
   binary64 sums to be exact and order independent; that holds when all amounts of the trace fit one 53-bit window
   (`exact_window`: bit length of the sum of all amounts minus the lowest set bit of any amount <= 53), which the generator's
   pools satisfy (distinct powers of two within 2^27 of each other, tiny-only and subnormal-only pools, a single arbitrary amount);
   otherwise (A) is skipped for that trace ((B) compares with the float order, (C) uses binary64 arithmetic).
   Any panic / hang marker fails.

   Counter-vector children (`spec_c01_vec`, traces of `C vec` scenarios with calls with_label_values(k).inc_by(d) and collect):
   every completed collection lists no label tuple twice and shows, for every label tuple k, the sum of the increments on k that
   returned before the collection was invoked plus the sum of SOME subset of the increments on k that overlap it (a tuple that
   is not listed counts as 0).  So a collection after all threads finished shows exactly the sum of ALL completed increments
   per tuple, and an increment made through a child that the vector lost is a failing input. *)
Require Import PV.Base.Prelude PV.Base.F64 PV.Model.Conc.
From Coq Require Import ZArith Lia.
Open Scope Z_scope.

(* ------------------------------------------------------------------ calls of a trace *)
Record crec := { c_t : nat; c_call : call; c_inv : nat; c_res : option nat; c_ret : retv }.

Definition close_call (t : nat) (i : nat) (r : retv) (l : list crec) : list crec :=
  map (fun c => if Nat.eqb (c_t c) t && match c_res c with None => true | Some _ => false end
                then {| c_t := c_t c; c_call := c_call c; c_inv := c_inv c; c_res := Some i; c_ret := r |} else c) l.
Definition bad_event (e : event) : bool :=
  match e with EPanic _ | EOther _ | EStuck | EDeadlock | ELivelock | ENoHooks => true | _ => false end.
(* (calls in invocation order, ok flag) *)
Fixpoint calls_of (es : list event) (i : nat) (acc : list crec) : list crec * bool :=
  match es with
  | [] => (acc, true)
  | e :: r =>
      if bad_event e then (acc, false) else
      match e with
      | ECall t c => calls_of r (S i) (acc ++ [{| c_t := t; c_call := c; c_inv := i; c_res := None; c_ret := RUnit |}])
      | ERet t x => calls_of r (S i) (close_call t i x acc)
      | _ => calls_of r (S i) acc
      end
  end.

Definition returned_before (a b : crec) : bool :=   (* a returned before b was invoked *)
  match c_res a with Some ra => Nat.ltb ra (c_inv b) | None => false end.
Definition invoked_after_return (a b : crec) : bool :=   (* a was invoked after b returned *)
  match c_res b with Some rb => Nat.ltb rb (c_inv a) | None => false end.

(* ------------------------------------------------------------------ exact amounts *)
Definition scale : Z := 1074.
Definition qfloat (b : N) : option Z :=
  match Prim2SF (bits2f b) with
  | S754_zero _ => Some 0
  | S754_finite s m e =>
      let k := e + scale in
      if 0 <=? k then let q := Zpos m * 2 ^ k in Some (if s then - q else q) else None
  | _ => None
  end.
(* all subset sums of the amounts qs are exactly representable: they are multiples of the lowest set bit of any amount
   and smaller than 2^53 times it *)
Definition low_bit (q : Z) : Z := Z.log2 (Z.land (Z.abs q) (- Z.abs q)).
Definition exact_window (qs : list Z) : bool :=
  let nz := filter (fun q => negb (q =? 0)) qs in
  match nz with
  | [] => true
  | q0 :: _ =>
      let lo := fold_left (fun a q => Z.min a (low_bit q)) nz (low_bit q0) in
      let tot := fold_left (fun a q => a + Z.abs q) nz 0 in
      Z.log2 tot + 1 - lo <=? 53
  end.
Definition qdec (isf : bool) (b : N) : option Z := if isf then qfloat b else Some (Z.of_N b).
Definition qone (isf : bool) : Z := if isf then 2 ^ scale else 1.

(* amount of an increment call *)
Definition inc_amount (isf : bool) (c : call) : option (option Z) :=   (* None: not an increment; Some None: does not decode *)
  match c with
  | CInc => Some (Some (qone isf))
  | CAdd d | CFlush d => Some (qdec isf d)
  | _ => None
  end.
Definition is_inc (c : call) : bool := match c with CInc | CAdd _ | CFlush _ => true | _ => false end.
Definition is_reset (c : call) : bool := match c with CReset => true | _ => false end.
Definition is_get (c : call) : bool := match c with CGet => true | _ => false end.

Definition amount_or0 (isf : bool) (c : crec) : Z :=
  match inc_amount isf (c_call c) with Some (Some q) => q | _ => 0 end.
Definition all_decode (isf : bool) (cs : list crec) : bool :=
  forallb (fun c => match inc_amount isf (c_call c) with Some None => false | _ => true end) cs
  && (if isf then exact_window (map (amount_or0 isf) cs) else true).

(* is x = base + sum of some subset of l ? *)
Fixpoint subset_sum (l : list Z) (base x : Z) : bool :=
  match l with
  | [] => base =? x
  | q :: r => if subset_sum r base x then true else subset_sum r (base + q) x
  end.

(* (A) *)
Definition read_subset_ok (isf : bool) (cs : list crec) (g : crec) : bool :=
  match c_res g, c_ret g with
  | Some _, RVal v =>
      if existsb (fun r => is_reset (c_call r) && negb (invoked_after_return r g)) cs then true else
      match qdec isf v with
      | None => false      (* the pool only produces sums that decode *)
      | Some x =>
          let incs := filter (fun c => is_inc (c_call c)) cs in
          let sure := filter (fun c => returned_before c g) incs in
          let maybe := filter (fun c => negb (returned_before c g) && negb (invoked_after_return c g)) incs in
          subset_sum (map (amount_or0 isf) maybe) (fold_left Z.add (map (amount_or0 isf) sure) 0) x
      end
  | Some _, _ => false     (* a read returns a value *)
  | None, _ => true
  end.

(* (B) *)
Definition val_leb (isf : bool) (a b : N) : bool :=
  if isf then PrimFloat.leb (bits2f a) (bits2f b) else (a <=? b)%N.
Definition reset_between (cs : list crec) (g1 g2 : crec) : bool :=
  existsb (fun r => is_reset (c_call r) && negb (returned_before r g1) && negb (invoked_after_return r g2)) cs.
Definition monotone_ok (isf : bool) (cs : list crec) : bool :=
  let gets := filter (fun c => is_get (c_call c)) cs in
  forallb (fun g1 =>
    forallb (fun g2 =>
      if returned_before g1 g2 && match c_res g2 with Some _ => true | None => false end && negb (reset_between cs g1 g2) then
        match c_ret g1, c_ret g2 with
        | RVal a, RVal b => val_leb isf a b
        | _, _ => false
        end
      else true) gets) gets.

(* ------------------------------------------------------------------ (C) search for a linearisation *)
(* lazily: f is applied only until it answers true *)
Fixpoint first_true {A} (f : A -> bool) (l : list A) : bool :=
  match l with [] => false | x :: r => if f x then true else first_true f r end.

Section Search.
Variable S : Type.
Variable step : S -> call -> option (S * option N).    (* new state, returned pattern of a read *)
Variable same : N -> N -> bool.                        (* returned pattern = specified pattern *)

Definition ret_ok (c : crec) (o : option N) : bool :=
  match c_res c with
  | None => true                       (* never returned: nothing to explain *)
  | Some _ => match c_ret c, o with
              | RUnit, None => true
              | RVal v, Some w => same v w
              | _, _ => false
              end
  end.
Definition minimal (c : crec) (pend : list crec) : bool :=
  forallb (fun d => negb (returned_before d c)) pend.
Definition without (c : crec) (pend : list crec) : list crec :=
  filter (fun d => negb (Nat.eqb (c_inv d) (c_inv c))) pend.

Fixpoint lin_search (fuel : nat) (pend : list crec) (s : S) : bool :=
  match fuel with
  | O => false
  | Datatypes.S f =>
      (* calls that never returned may take effect later or never *)
      if forallb (fun c => match c_res c with None => true | Some _ => false end) pend then true else
      first_true (fun c =>
         if minimal c pend then
           match step s (c_call c) with
           | Some (s1, o) => if ret_ok c o then lin_search f (without c pend) s1 else false
           | None => false
           end
         else false) pend
  end.
End Search.

(* the counter, one call at a time *)
Definition ctr_step_int (s : N) (c : call) : option (N * option N) :=
  match c with
  | CInc => Some (wrap64 (s + 1), None)
  | CAdd d | CFlush d => Some (wrap64 (s + d), None)
  | CGet => Some (s, Some s)
  | CReset => Some (0%N, None)
  | _ => None
  end.
Definition ctr_step_float (s : f64) (c : call) : option (f64 * option N) :=
  match c with
  | CInc => Some ((s + 1)%float, None)
  | CAdd d => Some ((s + bits2f d)%float, None)
  | CFlush d => Some (if PrimFloat.eqb (bits2f d) 0 then s else (s + bits2f d)%float, None)   (* nothing accumulated: nothing to add *)
  | CGet => Some (s, Some (f2bits s))
  | CReset => Some (0%float, None)
  | _ => None
  end.
(* returned pattern a (as reported, NaN payloads canonicalised / 64 bits) is the specified canonical pattern b *)
Definition same_float (a b : N) : bool := N.eqb (f2bits (bits2f a)) b.
Definition same_int (a b : N) : bool := N.eqb (wrap64 a) b.

Definition search_limit : nat := 9.
Definition counter_call (c : call) : bool := is_inc c || is_get c || is_reset c.

Definition spec_c01 (isf : bool) (es : list event) : bool :=
  let '(cs, ok) := calls_of es O [] in
  ok
  && forallb (fun c => counter_call (c_call c)) cs
  && (if all_decode isf cs then forallb (fun g => if is_get (c_call g) then read_subset_ok isf cs g else true) cs else true)
  && monotone_ok isf cs
  && (if Nat.leb (length cs) search_limit then
        (if isf then lin_search f64 ctr_step_float same_float (Datatypes.S (length cs)) cs 0%float
         else lin_search N ctr_step_int same_int (Datatypes.S (length cs)) cs 0%N)
      else true).

(* ------------------------------------------------------------------ counters reached as children of a counter vector *)
Fixpoint key_eqb (a b : list str) : bool :=
  match a, b with
  | [], [] => true
  | x :: a', y :: b' => str_eqb x y && key_eqb a' b'
  | _, _ => false
  end.
Fixpoint key_lookup (k : list str) (l : list (list str * N)) : option N :=
  match l with [] => None | (k', v) :: r => if key_eqb k k' then Some v else key_lookup k r end.
Fixpoint key_mem (k : list str) (l : list (list str)) : bool :=
  match l with [] => false | k' :: r => key_eqb k k' || key_mem k r end.
Fixpoint key_nodup (l : list (list str)) : bool :=
  match l with [] => true | k :: r => negb (key_mem k r) && key_nodup r end.
Definition vec_call (c : call) : bool := match c with CWithInc _ _ | CVCollect => true | _ => false end.
Definition winc_on (k : list str) (c : crec) : bool :=
  match c_call c, c_ret c with
  | CWithInc k' _, RUnit => key_eqb k k'      (* RErr: wrong number of label values, nothing was incremented *)
  | _, _ => false
  end.
Definition winc_amount (c : crec) : Z := match c_call c with CWithInc _ d => Z.of_N d | _ => 0 end.
Definition trace_keys (cs : list crec) : list (list str) :=
  flat_map (fun c => match c_call c, c_ret c with
                     | CWithInc k _, _ => [k]
                     | CVCollect, RColl l => map fst l
                     | _, _ => []
                     end) cs.
Definition collection_ok (cs : list crec) (g : crec) : bool :=
  match c_res g, c_ret g with
  | Some _, RColl l =>
      key_nodup (map fst l)
      && forallb (fun k =>
           let x := match key_lookup k l with Some v => Z.of_N v | None => 0 end in
           let incs := filter (winc_on k) cs in
           let sure := filter (fun c => returned_before c g) incs in
           let maybe := filter (fun c => negb (returned_before c g) && negb (invoked_after_return c g)) incs in
           subset_sum (map winc_amount maybe) (fold_left Z.add (map winc_amount sure) 0) x) (trace_keys cs)
  | Some _, _ => false
  | None, _ => true
  end.
Definition is_vcollect (c : call) : bool := match c with CVCollect => true | _ => false end.
Definition spec_c01_vec (es : list event) : bool :=
  let '(cs, ok) := calls_of es O [] in
  ok && (if forallb (fun c => vec_call (c_call c)) cs
         then forallb (fun g => if is_vcollect (c_call g) then collection_ok cs g else true) cs
         else true).
