//! Concurrent scenarios (C01, C02, C03, C10, C11): `C ...`.
pub fn run_line(_line: &str) -> String {
    "CUnimplemented".to_string()
}
