//! Concurrent scenarios (C01, C02, C03, C10, C11): the real library is run by real OS threads,
//! one atomic operation (or lock attempt / release, or call / return marker) at a time, in the
//! order dictated by a schedule.  Needs `--cfg prometheus_verif` (the sync shim in /repo).
//!
//! Line:  `C <object> | <ops of thread 0> | <ops of thread 1> | ... | S <schedule>`
//!   object  ::= ctr NF|NU | gauge NF|NI | hist <n> <f64 bits>* | vec <nlabels>
//!             | reg <collectors>      (concreg.rs: its own event vocabulary, coq/Model/RegConc.v)
//!   ops     ::= op (, op)*        (see `parse_op`)
//!   schedule::= (<tid>[s])*       `s` = make the step fail spuriously if it is a weak compare-exchange
//! Output: one line, a Gallina `list event` (coq/Model/Conc.v).
#[cfg(not(prometheus_verif))]
pub fn run_line(_line: &str) -> String {
    if _line.split_whitespace().nth(1) == Some("reg") {
        return "[RgNoHooks]".to_string();
    }
    "[ENoHooks]".to_string()
}

#[cfg(prometheus_verif)]
pub use imp::run_line;

#[cfg(prometheus_verif)]
mod imp {
    use crate::tok::Tok;
    use prometheus::core::{Collector, Metric};
    use prometheus::verif_sync::{self, Hook, Outcome, Point};
    use prometheus::*;
    use std::panic::{catch_unwind, AssertUnwindSafe};
    use std::sync::atomic::Ordering;
    use std::sync::{Arc, Condvar, Mutex};
    use std::time::{Duration, Instant};

    struct Sched {
        st: Mutex<State>,
        cv: Condvar,
    }
    struct State {
        turn: Option<(usize, bool)>, // (thread, force spurious failure)
        waiting: Vec<bool>,
        done: Vec<bool>,
        blocked_on: Vec<Option<u64>>,
        log: Vec<String>,
        abort: bool,
    }
    struct WorkerHook {
        s: Arc<Sched>,
        me: usize,
    }
    struct Aborted;

    impl WorkerHook {
        /// parks until granted; returns the spurious flag
        fn park(&self) -> bool {
            let mut g = self.s.st.lock().unwrap();
            g.waiting[self.me] = true;
            self.s.cv.notify_all();
            loop {
                if g.abort {
                    if std::thread::panicking() {
                        // already unwinding (a guard's unlock hook runs in a destructor): a second panic would abort the process
                        g.waiting[self.me] = false;
                        return false;
                    }
                    drop(g);
                    std::panic::resume_unwind(Box::new(Aborted));
                }
                if let Some((t, sp)) = g.turn {
                    if t == self.me {
                        g.waiting[self.me] = false;
                        return sp;
                    }
                }
                g = self.s.cv.wait(g).unwrap();
            }
        }
        fn emit(&self, line: String, blocked: Option<Option<u64>>) {
            let mut g = self.s.st.lock().unwrap();
            g.log.push(line);
            if let Some(b) = blocked {
                g.blocked_on[self.me] = b;
            }
            g.turn = None;
            self.s.cv.notify_all();
        }
        fn marker(&self, line: String) {
            self.park();
            self.emit(line, None);
        }
    }
    fn cord(o: Ordering) -> &'static str {
        match o {
            Ordering::Relaxed => "Relaxed",
            Ordering::Acquire => "Acquire",
            Ordering::Release => "Release",
            Ordering::AcqRel => "AcqRel",
            _ => "SeqCst",
        }
    }
    fn ckind(k: &str) -> &'static str {
        match k {
            "load" => "KLoad",
            "store" => "KStore",
            "fetch_add" => "KFetchAdd",
            "fetch_sub" => "KFetchSub",
            "swap" => "KSwap",
            "cas_weak" => "KCasWeak",
            _ => "KOther",
        }
    }
    fn clk(k: &str) -> &'static str {
        match k {
            "mutex" => "LMutex",
            "read" => "LRead",
            _ => "LWrite",
        }
    }
    impl Hook for WorkerHook {
        fn before(&self, _p: &Point) -> bool {
            self.park()
        }
        fn after(&self, p: &Point, o: Outcome) {
            let me = self.me;
            let (line, b) = match (p, &o) {
                (Point::Atomic { cell, kind, ord, ord2, .. }, Outcome::Atomic { before, after, ok }) => (
                    format!(
                        "EAt {} {} {} {} {} {} {} {}",
                        me,
                        cell,
                        ckind(kind),
                        cord(*ord),
                        match ord2 {
                            Some(o2) => format!("(Some {})", cord(*o2)),
                            None => "None".to_string(),
                        },
                        before,
                        after,
                        ok
                    ),
                    None,
                ),
                (Point::LockTry { cell, kind }, Outcome::Acquired) => (format!("ELock {} {} {} true", me, cell, clk(kind)), Some(None)),
                (Point::LockTry { cell, kind }, Outcome::Blocked) => (format!("ELock {} {} {} false", me, cell, clk(kind)), Some(Some(*cell))),
                (Point::LockRelease { cell, kind }, _) => {
                    let mut g = self.s.st.lock().unwrap();
                    for b in g.blocked_on.iter_mut() {
                        if *b == Some(*cell) {
                            *b = None;
                        }
                    }
                    drop(g);
                    (format!("EUnlock {} {} {}", me, cell, clk(kind)), None)
                }
                _ => (format!("EOther {}", me), None),
            };
            self.emit(line, b);
        }
    }

    #[derive(Clone)]
    enum Obj {
        CtrF(Counter),
        CtrU(IntCounter),
        GaugeF(Gauge),
        GaugeI(IntGauge),
        Hist(Histogram),
        Vec(IntCounterVec, usize),
        Reg(crate::concreg::RegObj),
    }
    #[derive(Clone)]
    enum Op {
        Inc,
        IncByF(f64),
        IncByU(u64),
        Get,
        Reset,
        LFlushF(Vec<f64>),
        LFlushU(Vec<u64>),
        SetF(f64),
        SetI(i64),
        Dec,
        AddF(f64),
        AddI(i64),
        SubF(f64),
        SubI(i64),
        Obs(f64),
        Batch(Vec<f64>),
        Collect,
        SCount,
        SSum,
        WithInc(Vec<String>, u64),
        Remove(Vec<String>),
        VReset,
        VCollect,
        Register(usize),
        Unregister(usize),
        Gather,
    }
    fn parse_op(s: &str) -> Op {
        let mut t = Tok::new(s);
        match t.word() {
            "inc" => Op::Inc,
            "incbyf" => Op::IncByF(t.f64()),
            "incbyu" => Op::IncByU(t.u64()),
            "get" => Op::Get,
            "reset" => Op::Reset,
            "lflushf" => Op::LFlushF(t.list(|t| t.f64())),
            "lflushu" => Op::LFlushU(t.list(|t| t.u64())),
            "setf" => Op::SetF(t.f64()),
            "seti" => Op::SetI(t.i64()),
            "dec" => Op::Dec,
            "addf" => Op::AddF(t.f64()),
            "addi" => Op::AddI(t.i64()),
            "subf" => Op::SubF(t.f64()),
            "subi" => Op::SubI(t.i64()),
            "obs" => Op::Obs(t.f64()),
            "batch" => Op::Batch(t.list(|t| t.f64())),
            "collect" => Op::Collect,
            "scount" => Op::SCount,
            "ssum" => Op::SSum,
            "withinc" => {
                let k = t.strings();
                Op::WithInc(k, t.u64())
            }
            "remove" => Op::Remove(t.strings()),
            "vreset" => Op::VReset,
            "vcollect" => Op::VCollect,
            "register" => Op::Register(t.usize()),
            "unregister" => Op::Unregister(t.usize()),
            "gather" => Op::Gather,
            w => panic!("bad conc op {}", w),
        }
    }
    #[cfg(feature = "protobuf")]
    fn cval(m: &prometheus::proto::Metric) -> f64 {
        m.get_counter().value()
    }
    #[cfg(not(feature = "protobuf"))]
    fn cval(m: &prometheus::proto::Metric) -> f64 {
        m.get_counter().get_value()
    }
    fn cstrs(v: &[String]) -> String {
        crate::fmt::clist(v, |s| crate::fmt::cstr(s))
    }
    fn cn_list<T: std::fmt::Display>(v: &[T]) -> String {
        let l: Vec<String> = v.iter().map(|x| x.to_string()).collect();
        format!("[{}]", l.join(";"))
    }

    /// runs one call; `call`/`ret` markers are scheduled steps of their own
    /// the local (unsync) handles of one worker thread: they live as long as the thread, so that a second batch goes
    /// through the SAME local handle as the first (a handle made afresh for every batch would hide state left behind
    /// by an earlier flush)
    #[derive(Default)]
    struct Locals {
        hist: Option<prometheus::local::LocalHistogram>,
        ctrf: Option<prometheus::local::LocalCounter>,
        ctru: Option<prometheus::local::LocalIntCounter>,
    }

    fn run_op(h: &WorkerHook, obj: &Obj, op: &Op, locals: &mut Locals) {
        let me = h.me;
        match (obj, op) {
            (Obj::CtrF(c), Op::Inc) => {
                h.marker(format!("ECall {} CInc", me));
                c.inc();
                h.marker(format!("ERet {} RUnit", me));
            }
            (Obj::CtrU(c), Op::Inc) => {
                h.marker(format!("ECall {} CInc", me));
                c.inc();
                h.marker(format!("ERet {} RUnit", me));
            }
            (Obj::GaugeF(c), Op::Inc) => {
                h.marker(format!("ECall {} CInc", me));
                c.inc();
                h.marker(format!("ERet {} RUnit", me));
            }
            (Obj::GaugeI(c), Op::Inc) => {
                h.marker(format!("ECall {} CInc", me));
                c.inc();
                h.marker(format!("ERet {} RUnit", me));
            }
            (Obj::CtrF(c), Op::IncByF(v)) => {
                h.marker(format!("ECall {} (CAdd {})", me, v.to_bits()));
                c.inc_by(*v);
                h.marker(format!("ERet {} RUnit", me));
            }
            (Obj::CtrU(c), Op::IncByU(v)) => {
                h.marker(format!("ECall {} (CAdd {})", me, v));
                c.inc_by(*v);
                h.marker(format!("ERet {} RUnit", me));
            }
            (Obj::CtrF(c), Op::Get) => {
                h.marker(format!("ECall {} CGet", me));
                let v = c.get();
                h.marker(format!("ERet {} (RVal {})", me, v.to_bits()));
            }
            (Obj::CtrU(c), Op::Get) => {
                h.marker(format!("ECall {} CGet", me));
                let v = c.get();
                h.marker(format!("ERet {} (RVal {})", me, v));
            }
            (Obj::GaugeF(c), Op::Get) => {
                h.marker(format!("ECall {} CGet", me));
                let v = c.get();
                h.marker(format!("ERet {} (RVal {})", me, v.to_bits()));
            }
            (Obj::GaugeI(c), Op::Get) => {
                h.marker(format!("ECall {} CGet", me));
                let v = c.get();
                h.marker(format!("ERet {} (RVal {})", me, v as u64));
            }
            (Obj::CtrF(c), Op::Reset) => {
                h.marker(format!("ECall {} CReset", me));
                c.reset();
                h.marker(format!("ERet {} RUnit", me));
            }
            (Obj::CtrU(c), Op::Reset) => {
                h.marker(format!("ECall {} CReset", me));
                c.reset();
                h.marker(format!("ERet {} RUnit", me));
            }
            (Obj::CtrF(c), Op::LFlushF(vs)) => {
                let l = locals.ctrf.get_or_insert_with(|| c.local());
                for v in vs {
                    l.inc_by(*v);
                }
                let acc = l.get();
                h.marker(format!("ECall {} (CFlush {})", me, acc.to_bits()));
                l.flush();
                h.marker(format!("ERet {} RUnit", me));
                // a second flush must be a no-op: it performs no shared step at all
                l.flush();
            }
            (Obj::CtrU(c), Op::LFlushU(vs)) => {
                let l = locals.ctru.get_or_insert_with(|| c.local());
                for v in vs {
                    l.inc_by(*v);
                }
                let acc = l.get();
                h.marker(format!("ECall {} (CFlush {})", me, acc));
                l.flush();
                h.marker(format!("ERet {} RUnit", me));
                l.flush();
            }
            (Obj::GaugeF(c), Op::SetF(v)) => {
                h.marker(format!("ECall {} (CSet {})", me, v.to_bits()));
                c.set(*v);
                h.marker(format!("ERet {} RUnit", me));
            }
            (Obj::GaugeI(c), Op::SetI(v)) => {
                h.marker(format!("ECall {} (CSet {})", me, *v as u64));
                c.set(*v);
                h.marker(format!("ERet {} RUnit", me));
            }
            (Obj::GaugeF(c), Op::Dec) => {
                h.marker(format!("ECall {} CDec", me));
                c.dec();
                h.marker(format!("ERet {} RUnit", me));
            }
            (Obj::GaugeI(c), Op::Dec) => {
                h.marker(format!("ECall {} CDec", me));
                c.dec();
                h.marker(format!("ERet {} RUnit", me));
            }
            (Obj::GaugeF(c), Op::AddF(v)) => {
                h.marker(format!("ECall {} (CAdd {})", me, v.to_bits()));
                c.add(*v);
                h.marker(format!("ERet {} RUnit", me));
            }
            (Obj::GaugeI(c), Op::AddI(v)) => {
                h.marker(format!("ECall {} (CAdd {})", me, *v as u64));
                c.add(*v);
                h.marker(format!("ERet {} RUnit", me));
            }
            (Obj::GaugeF(c), Op::SubF(v)) => {
                h.marker(format!("ECall {} (CSub {})", me, v.to_bits()));
                c.sub(*v);
                h.marker(format!("ERet {} RUnit", me));
            }
            (Obj::GaugeI(c), Op::SubI(v)) => {
                h.marker(format!("ECall {} (CSub {})", me, *v as u64));
                c.sub(*v);
                h.marker(format!("ERet {} RUnit", me));
            }
            (Obj::Hist(hh), Op::Obs(v)) => {
                h.marker(format!("ECall {} (CObs {})", me, v.to_bits()));
                hh.observe(*v);
                h.marker(format!("ERet {} RUnit", me));
            }
            (Obj::Hist(hh), Op::Batch(vs)) => {
                let l = locals.hist.get_or_insert_with(|| hh.local());
                for v in vs {
                    l.observe(*v);
                }
                let bits: Vec<u64> = vs.iter().map(|v| v.to_bits()).collect();
                h.marker(format!("ECall {} (CBatch {})", me, cn_list(&bits)));
                l.flush();
                h.marker(format!("ERet {} RUnit", me));
                // the (now empty) local histogram is kept for the thread's next batch; dropping it at the end of the
                // thread performs no shared step
            }
            (Obj::Hist(hh), Op::Collect) => {
                h.marker(format!("ECall {} CCollect", me));
                let m = hh.metric();
                let p = m.get_histogram();
                let bks: Vec<u64> = p.get_bucket().iter().map(|b| b.cumulative_count()).collect();
                h.marker(format!(
                    "ERet {} (RSnap {} {} {})",
                    me,
                    p.get_sample_count(),
                    p.get_sample_sum().to_bits(),
                    cn_list(&bks)
                ));
            }
            (Obj::Hist(hh), Op::SCount) => {
                h.marker(format!("ECall {} CSCount", me));
                let v = hh.get_sample_count();
                h.marker(format!("ERet {} (RVal {})", me, v));
            }
            (Obj::Hist(hh), Op::SSum) => {
                h.marker(format!("ECall {} CSSum", me));
                let v = hh.get_sample_sum();
                h.marker(format!("ERet {} (RVal {})", me, v.to_bits()));
            }
            (Obj::Vec(v, _), Op::WithInc(k, d)) => {
                h.marker(format!("ECall {} (CWithInc {} {})", me, cstrs(k), d));
                let ks: Vec<&str> = k.iter().map(|s| s.as_str()).collect();
                match v.get_metric_with_label_values(&ks) {
                    Ok(c) => {
                        c.inc_by(*d);
                        h.marker(format!("ERet {} RUnit", me));
                    }
                    Err(_) => h.marker(format!("ERet {} RErr", me)),
                }
            }
            (Obj::Vec(v, _), Op::Remove(k)) => {
                h.marker(format!("ECall {} (CRemove {})", me, cstrs(k)));
                let ks: Vec<&str> = k.iter().map(|s| s.as_str()).collect();
                match v.remove_label_values(&ks) {
                    Ok(()) => h.marker(format!("ERet {} RUnit", me)),
                    Err(_) => h.marker(format!("ERet {} RErr", me)),
                }
            }
            (Obj::Vec(v, _), Op::VReset) => {
                h.marker(format!("ECall {} CVReset", me));
                v.reset();
                h.marker(format!("ERet {} RUnit", me));
            }
            (Obj::Vec(v, _), Op::VCollect) => {
                h.marker(format!("ECall {} CVCollect", me));
                let mfs = v.collect();
                let mut items: Vec<String> = vec![];
                for m in mfs[0].get_metric() {
                    let vals: Vec<String> = m.get_label().iter().map(|lp| lp.value().to_string()).collect();
                    items.push(format!("({},{})", cstrs(&vals), cval(m) as u64));
                }
                h.marker(format!("ERet {} (RColl [{}])", me, items.join(";")));
            }
            (Obj::Reg(r), Op::Register(i)) if *i < r.cols.len() => {
                let wh = WorkerHook { s: h.s.clone(), me };
                crate::concreg::set_probe(me, Arc::new(move |l: String| wh.marker(l)));
                h.marker(format!("RgCall {} (RRegister {})", me, i));
                let res = crate::concreg::register(r, *i);
                h.marker(format!("RgRet {} {}", me, res));
            }
            (Obj::Reg(r), Op::Unregister(i)) if *i < r.cols.len() => {
                let wh = WorkerHook { s: h.s.clone(), me };
                crate::concreg::set_probe(me, Arc::new(move |l: String| wh.marker(l)));
                h.marker(format!("RgCall {} (RUnregister {})", me, i));
                let res = crate::concreg::unregister(r, *i);
                h.marker(format!("RgRet {} {}", me, res));
            }
            (Obj::Reg(r), Op::Gather) => {
                let wh = WorkerHook { s: h.s.clone(), me };
                crate::concreg::set_probe(me, Arc::new(move |l: String| wh.marker(l)));
                h.marker(format!("RgCall {} RGather", me));
                let res = crate::concreg::gather(r);
                h.marker(format!("RgRet {} {}", me, res));
            }
            (Obj::Reg(_), _) => {
                h.marker(format!("RgOther {}", me));
            }
            _ => {
                h.marker(format!("ECall {} CBadOp", me));
                h.marker(format!("ERet {} RErr", me));
            }
        }
    }

    pub fn run_line(line: &str) -> String {
        let parts: Vec<&str> = line.split('|').map(|s| s.trim()).collect();
        let mut t = Tok::new(parts[0]);
        let _ = t.word();
        verif_sync::reset_ids();
        let obj = match t.word() {
            "ctr" => match t.word() {
                "NF" => Obj::CtrF(Counter::new("c", "h").unwrap()),
                _ => Obj::CtrU(IntCounter::new("c", "h").unwrap()),
            },
            "gauge" => match t.word() {
                "NF" => Obj::GaugeF(Gauge::new("g", "h").unwrap()),
                _ => Obj::GaugeI(IntGauge::new("g", "h").unwrap()),
            },
            "hist" => {
                let b = t.list(|t| t.f64());
                Obj::Hist(Histogram::with_opts(HistogramOpts::new("h", "h").buckets(b)).unwrap())
            }
            "vec" => {
                let n = t.usize();
                let names: Vec<String> = (0..n).map(|i| format!("l{}", i)).collect();
                let ns: Vec<&str> = names.iter().map(|s| s.as_str()).collect();
                Obj::Vec(IntCounterVec::new(Opts::new("v", "h"), &ns).unwrap(), n)
            }
            "reg" => Obj::Reg(crate::concreg::make(&mut t)),
            w => panic!("bad object {}", w),
        };
        let is_reg = matches!(obj, Obj::Reg(_));
        if let Obj::Reg(r) = &obj {
            if !r.instrumented {
                return "[RgNoHooks]".to_string();
            }
        }
        let mut progs: Vec<Vec<Op>> = vec![];
        let mut schedule: Vec<(usize, bool)> = vec![];
        for p in &parts[1..] {
            if let Some(rest) = p.strip_prefix("S") {
                for w in rest.split_whitespace() {
                    let (d, sp) = match w.strip_suffix('s') {
                        Some(d) => (d, true),
                        None => (w, false),
                    };
                    schedule.push((d.parse().unwrap(), sp));
                }
            } else {
                progs.push(p.split(',').map(|s| s.trim()).filter(|s| !s.is_empty()).map(parse_op).collect());
            }
        }
        let n = progs.len();
        let s = Arc::new(Sched {
            st: Mutex::new(State {
                turn: None,
                waiting: vec![false; n],
                done: vec![false; n],
                blocked_on: vec![None; n],
                log: vec![],
                abort: false,
            }),
            cv: Condvar::new(),
        });
        let mut hs = vec![];
        // one handle shared by reference (not one library-level clone per thread: a clone would raise the handle's
        // internal reference count, and code paths that depend on it would never be exercised)
        let obj = Arc::new(obj);
        for (i, prog) in progs.into_iter().enumerate() {
            let obj = obj.clone();
            let s2 = s.clone();
            hs.push(std::thread::spawn(move || {
                let hook = Arc::new(WorkerHook { s: s2.clone(), me: i });
                verif_sync::install(hook.clone());
                let r = catch_unwind(AssertUnwindSafe(|| {
                    let mut locals = Locals::default();
                    for op in &prog {
                        run_op(&hook, &obj, op, &mut locals);
                    }
                }));
                verif_sync::uninstall();
                let mut g = s2.st.lock().unwrap();
                if let Err(e) = r {
                    if !e.is::<Aborted>() {
                        g.log.push(format!("EPanic {}", i));
                    }
                }
                g.done[i] = true;
                g.waiting[i] = false;
                g.turn = None;
                s2.cv.notify_all();
            }));
        }
        let mut sched_iter = schedule.into_iter();
        let mut rr = 0usize;
        let mut steps = 0usize;
        let max_steps = 4000usize;
        let deadline = Instant::now() + Duration::from_secs(20);
        let mut verdict: Option<&str> = None;
        loop {
            let mut g = s.st.lock().unwrap();
            // wait until every live thread is parked
            while !(0..n).all(|i| g.waiting[i] || g.done[i]) {
                let (g2, to) = s.cv.wait_timeout(g, Duration::from_millis(200)).unwrap();
                g = g2;
                if to.timed_out() && Instant::now() > deadline {
                    verdict = Some("EStuck"); // a thread neither parks nor finishes: it spins outside the shim
                    break;
                }
            }
            if verdict.is_some() {
                g.abort = true;
                s.cv.notify_all();
                break;
            }
            if g.done.iter().all(|d| *d) {
                break;
            }
            let enabled = |g: &State, i: usize| g.waiting[i] && !g.done[i] && g.blocked_on[i].is_none();
            if !(0..n).any(|i| enabled(&g, i)) {
                verdict = Some("EDeadlock");
                g.abort = true;
                s.cv.notify_all();
                break;
            }
            steps += 1;
            if steps > max_steps {
                verdict = Some("ELivelock");
                g.abort = true;
                s.cv.notify_all();
                break;
            }
            let want = sched_iter.next();
            let (t, sp) = match want {
                Some((t, sp)) if t < n && enabled(&g, t) => (t, sp),
                _ => {
                    // fair fallback: round robin over the enabled threads
                    let mut k = rr;
                    loop {
                        k = (k + 1) % n;
                        if enabled(&g, k) {
                            break;
                        }
                    }
                    rr = k;
                    (k, false)
                }
            };
            g.turn = Some((t, sp));
            s.cv.notify_all();
            while g.turn.is_some() {
                g = s.cv.wait(g).unwrap();
            }
        }
        if verdict.is_none() {
            for h in hs {
                let _ = h.join();
            }
        } else {
            // give aborted threads a moment to unwind; blocked ones are leaked
            std::thread::sleep(Duration::from_millis(50));
        }
        let g = s.st.lock().unwrap();
        let mut evs: Vec<String> = g.log.clone();
        if let Some(v) = verdict {
            evs.push(v.to_string());
        }
        if is_reg {
            evs = evs.iter().map(|e| crate::concreg::rename(e)).collect();
        }
        format!("[{}]", evs.join("; "))
    }
}
