//! Sequential scenarios: one line = one history of public API calls over a slot table.
//! Line format: `S <n_ops> | op | op | ...` ; output: one line `[obs; obs; ...]` (Gallina).
use crate::build;
use crate::fmt::*;
use crate::tok::Tok;
use prometheus::core::{Collector, Desc};
use prometheus::local::*;
use prometheus::*;
use std::collections::HashMap;
use std::panic::{catch_unwind, AssertUnwindSafe};
use std::sync::{Arc, Mutex};
use std::time::Duration;

#[derive(Clone)]
struct Custom {
    descs: Vec<Desc>,
    fams: Vec<proto::MetricFamily>,
}
impl Collector for Custom {
    fn desc(&self) -> Vec<&Desc> {
        self.descs.iter().collect()
    }
    fn collect(&self) -> Vec<proto::MetricFamily> {
        self.fams.clone()
    }
}

enum H {
    Dead,
    CF(Counter),
    CU(IntCounter),
    GF(Gauge),
    GI(IntGauge),
    Hist(Histogram),
    VCF(CounterVec),
    VCU(IntCounterVec),
    VGF(GaugeVec),
    VGI(IntGaugeVec),
    VH(HistogramVec),
    LCF(LocalCounter),
    LCU(LocalIntCounter),
    LH(LocalHistogram),
    LVCF(LocalCounterVec),
    LVCU(LocalIntCounterVec),
    LVH(LocalHistogramVec),
    Timer(HistogramTimer),
    LTimer(LocalHistogramTimer),
    Reg(Registry),
    Custom(Custom),
    Pulling(PullingGauge),
}

enum Num {
    F(f64),
    U(u64),
    I(i64),
}
fn num(t: &mut Tok) -> Num {
    match t.word() {
        "VF" => Num::F(t.f64()),
        "VU" => Num::U(t.u64()),
        "VI" => Num::I(t.i64()),
        w => panic!("bad num {}", w),
    }
}
fn cnum_f(x: f64) -> String {
    format!("ONum (VF {})", cf64(x))
}
fn cnum_u(x: u64) -> String {
    format!("ONum (VU {})", x)
}
fn cnum_i(x: i64) -> String {
    format!("ONum (VI {})", cz(x))
}

/// "simply dropped, on whichever thread": every other dropped timer goes out of scope while its thread is unwinding
/// from a panic (std::thread::panicking() is true inside its Drop); the observation must be recorded all the same.
fn drop_maybe_unwinding<T>(x: T, nanos: u64) {
    if nanos % 2 == 1 {
        let _ = std::panic::catch_unwind(std::panic::AssertUnwindSafe(move || {
            let _guard = x;
            panic!("unwinding on purpose");
        }));
    } else {
        drop(x);
    }
}

fn push_elapsed(secs: u64, nanos: u64) {
    #[cfg(prometheus_verif)]
    prometheus::verif_sync::push_elapsed_override(Duration::new(secs, nanos as u32));
    #[cfg(not(prometheus_verif))]
    {
        let _ = (secs, nanos, Duration::from_secs(0));
    }
}

fn desc_obs(d: &Desc) -> String {
    format!(
        "({},{},{},{},{},{})",
        cstr(&d.fq_name),
        cstr(&d.help),
        d.id,
        d.dim_hash,
        clist(&d.const_label_pairs, clp),
        clist(&d.variable_labels, |s| cstr(s))
    )
}

fn boxed(h: &H) -> Option<Box<dyn Collector>> {
    Some(match h {
        H::CF(x) => Box::new(x.clone()),
        H::CU(x) => Box::new(x.clone()),
        H::GF(x) => Box::new(x.clone()),
        H::GI(x) => Box::new(x.clone()),
        H::Hist(x) => Box::new(x.clone()),
        H::VCF(x) => Box::new(x.clone()),
        H::VCU(x) => Box::new(x.clone()),
        H::VGF(x) => Box::new(x.clone()),
        H::VGI(x) => Box::new(x.clone()),
        H::VH(x) => Box::new(x.clone()),
        H::Custom(x) => Box::new(x.clone()),
        H::Pulling(x) => Box::new(x.clone()),
        _ => return None,
    })
}

macro_rules! newslot {
    ($slots:expr, $r:expr, $wrap:expr) => {{
        let r = $r;
        let o = cres(&r);
        match r {
            Ok(x) => $slots.push($wrap(x)),
            Err(_) => $slots.push(H::Dead),
        }
        o
    }};
}

fn strs(v: &[String]) -> Vec<&str> {
    v.iter().map(|s| s.as_str()).collect()
}

/// Executes one operation; returns the observation as a Gallina term.
fn step(slots: &mut Vec<H>, t: &mut Tok) -> String {
    let op = t.word();
    match op {
        "OpDesc" => {
            let fq = t.string();
            let help = t.string();
            let vars = t.strings();
            let consts = t.pairs();
            let mut m = HashMap::new();
            for (k, v) in consts {
                m.insert(k, v);
            }
            match Desc::new(fq, help, vars, m) {
                Ok(d) => format!("ODesc (Some ({},{},{}))", d.id, d.dim_hash, clist(&d.const_label_pairs, clp)),
                Err(_) => "ODesc None".to_string(),
            }
        }
        "OpFqName" => {
            let ns = t.string();
            let sub = t.string();
            let name = t.string();
            let o = Opts::new(name, "h").namespace(ns).subsystem(sub);
            format!("OStr {}", cstr(&o.fq_name()))
        }
        "OpCounter" => match t.word() {
            "NF" => newslot!(slots, Counter::with_opts(build::opts(t)), H::CF),
            "NU" => newslot!(slots, IntCounter::with_opts(build::opts(t)), H::CU),
            w => panic!("bad kind {}", w),
        },
        "OpGauge" => match t.word() {
            "NF" => newslot!(slots, Gauge::with_opts(build::opts(t)), H::GF),
            "NI" => newslot!(slots, IntGauge::with_opts(build::opts(t)), H::GI),
            w => panic!("bad kind {}", w),
        },
        "OpHistogram" => newslot!(slots, Histogram::with_opts(build::hopts(t)), H::Hist),
        "OpCounterVec" => {
            let k = t.word();
            let o = build::opts(t);
            let labels = t.strings();
            let l = strs(&labels);
            match k {
                "NF" => newslot!(slots, CounterVec::new(o, &l), H::VCF),
                "NU" => newslot!(slots, IntCounterVec::new(o, &l), H::VCU),
                w => panic!("bad kind {}", w),
            }
        }
        "OpGaugeVec" => {
            let k = t.word();
            let o = build::opts(t);
            let labels = t.strings();
            let l = strs(&labels);
            match k {
                "NF" => newslot!(slots, GaugeVec::new(o, &l), H::VGF),
                "NI" => newslot!(slots, IntGaugeVec::new(o, &l), H::VGI),
                w => panic!("bad kind {}", w),
            }
        }
        "OpHistVec" => {
            let o = build::hopts(t);
            let labels = t.strings();
            let l = strs(&labels);
            newslot!(slots, HistogramVec::new(o, &l), H::VH)
        }
        "OpWith" => {
            let s = t.usize();
            let vals = t.strings();
            let v = strs(&vals);
            match &slots[s] {
                H::VCF(x) => newslot!(slots, x.get_metric_with_label_values(&v), H::CF),
                H::VCU(x) => newslot!(slots, x.get_metric_with_label_values(&v), H::CU),
                H::VGF(x) => newslot!(slots, x.get_metric_with_label_values(&v), H::GF),
                H::VGI(x) => newslot!(slots, x.get_metric_with_label_values(&v), H::GI),
                H::VH(x) => newslot!(slots, x.get_metric_with_label_values(&v), H::Hist),
                _ => {
                    slots.push(H::Dead);
                    "OBad".to_string()
                }
            }
        }
        "OpWithMap" => {
            let s = t.usize();
            let kvs = t.pairs();
            let m = build::label_map(&kvs);
            match &slots[s] {
                H::VCF(x) => newslot!(slots, x.get_metric_with(&m), H::CF),
                H::VCU(x) => newslot!(slots, x.get_metric_with(&m), H::CU),
                H::VGF(x) => newslot!(slots, x.get_metric_with(&m), H::GF),
                H::VGI(x) => newslot!(slots, x.get_metric_with(&m), H::GI),
                H::VH(x) => newslot!(slots, x.get_metric_with(&m), H::Hist),
                _ => {
                    slots.push(H::Dead);
                    "OBad".to_string()
                }
            }
        }
        "OpRemove" => {
            let s = t.usize();
            let vals = t.strings();
            let v = strs(&vals);
            match &slots[s] {
                H::VCF(x) => cres(&x.remove_label_values(&v)),
                H::VCU(x) => cres(&x.remove_label_values(&v)),
                H::VGF(x) => cres(&x.remove_label_values(&v)),
                H::VGI(x) => cres(&x.remove_label_values(&v)),
                H::VH(x) => cres(&x.remove_label_values(&v)),
                _ => "OBad".to_string(),
            }
        }
        "OpRemoveMap" => {
            let s = t.usize();
            let kvs = t.pairs();
            let m = build::label_map(&kvs);
            match &slots[s] {
                H::VCF(x) => cres(&x.remove(&m)),
                H::VCU(x) => cres(&x.remove(&m)),
                H::VGF(x) => cres(&x.remove(&m)),
                H::VGI(x) => cres(&x.remove(&m)),
                H::VH(x) => cres(&x.remove(&m)),
                _ => "OBad".to_string(),
            }
        }
        "OpReset" => {
            let s = t.usize();
            match &slots[s] {
                H::VCF(x) => { let _ = x.reset(); }
                H::VCU(x) => { let _ = x.reset(); }
                H::VGF(x) => { let _ = x.reset(); }
                H::VGI(x) => { let _ = x.reset(); }
                H::VH(x) => { let _ = x.reset(); }
                H::CF(x) => { let _ = x.reset(); }
                H::CU(x) => { let _ = x.reset(); }
                _ => return "OBad".to_string(),
            }
            "OUnit".to_string()
        }
        "OpInc" => {
            let s = t.usize();
            match &slots[s] {
                H::CF(x) => x.inc(),
                H::CU(x) => x.inc(),
                H::GF(x) => x.inc(),
                H::GI(x) => x.inc(),
                H::LCF(x) => x.inc(),
                H::LCU(x) => x.inc(),
                _ => return "OBad".to_string(),
            }
            "OUnit".to_string()
        }
        "OpDec" => {
            let s = t.usize();
            match &slots[s] {
                H::GF(x) => x.dec(),
                H::GI(x) => x.dec(),
                _ => return "OBad".to_string(),
            }
            "OUnit".to_string()
        }
        "OpIncBy" | "OpAdd" | "OpSub" | "OpSet" => {
            let s = t.usize();
            let v = num(t);
            match (op, &slots[s], v) {
                ("OpIncBy", H::CF(x), Num::F(v)) => x.inc_by(v),
                ("OpIncBy", H::CU(x), Num::U(v)) => x.inc_by(v),
                ("OpIncBy", H::LCF(x), Num::F(v)) => x.inc_by(v),
                ("OpIncBy", H::LCU(x), Num::U(v)) => x.inc_by(v),
                ("OpAdd", H::GF(x), Num::F(v)) => x.add(v),
                ("OpAdd", H::GI(x), Num::I(v)) => x.add(v),
                ("OpSub", H::GF(x), Num::F(v)) => x.sub(v),
                ("OpSub", H::GI(x), Num::I(v)) => x.sub(v),
                ("OpSet", H::GF(x), Num::F(v)) => x.set(v),
                ("OpSet", H::GI(x), Num::I(v)) => x.set(v),
                _ => return "OBad".to_string(),
            }
            "OUnit".to_string()
        }
        "OpGet" => {
            let s = t.usize();
            match &slots[s] {
                H::CF(x) => cnum_f(x.get()),
                H::CU(x) => cnum_u(x.get()),
                H::GF(x) => cnum_f(x.get()),
                H::GI(x) => cnum_i(x.get()),
                H::LCF(x) => cnum_f(x.get()),
                H::LCU(x) => cnum_u(x.get()),
                _ => "OBad".to_string(),
            }
        }
        "OpObserve" => {
            let s = t.usize();
            let v = t.f64();
            match &slots[s] {
                H::Hist(x) => x.observe(v),
                H::LH(x) => x.observe(v),
                _ => return "OBad".to_string(),
            }
            "OUnit".to_string()
        }
        "OpSampleSum" => {
            let s = t.usize();
            match &slots[s] {
                H::Hist(x) => format!("OF64 {}", cf64(x.get_sample_sum())),
                H::LH(x) => format!("OF64 {}", cf64(x.get_sample_sum())),
                _ => "OBad".to_string(),
            }
        }
        "OpSampleCount" => {
            let s = t.usize();
            match &slots[s] {
                H::Hist(x) => format!("ON {}", x.get_sample_count()),
                H::LH(x) => format!("ON {}", x.get_sample_count()),
                _ => "OBad".to_string(),
            }
        }
        "OpLocal" => {
            let s = t.usize();
            let h = match &slots[s] {
                H::CF(x) => H::LCF(x.local()),
                H::CU(x) => H::LCU(x.local()),
                H::Hist(x) => H::LH(x.local()),
                H::VCF(x) => H::LVCF(x.local()),
                H::VCU(x) => H::LVCU(x.local()),
                H::VH(x) => H::LVH(x.local()),
                _ => {
                    slots.push(H::Dead);
                    return "OBad".to_string();
                }
            };
            slots.push(h);
            "OUnit".to_string()
        }
        "OpFlush" => {
            let s = t.usize();
            match &slots[s] {
                H::LCF(x) => { let _ = x.flush(); }
                H::LCU(x) => { let _ = x.flush(); }
                H::LH(x) => { let _ = x.flush(); }
                H::LVCF(x) => { let _ = x.flush(); }
                H::LVCU(x) => { let _ = x.flush(); }
                H::LVH(x) => { let _ = x.flush(); }
                _ => return "OBad".to_string(),
            }
            "OUnit".to_string()
        }
        "OpClear" => {
            let s = t.usize();
            match &slots[s] {
                H::LCF(x) => { let _ = x.reset(); }
                H::LCU(x) => { let _ = x.reset(); }
                H::LH(x) => { let _ = x.clear(); }
                _ => return "OBad".to_string(),
            }
            "OUnit".to_string()
        }
        "OpClone" => {
            let s = t.usize();
            let h = match &slots[s] {
                H::CF(x) => H::CF(x.clone()),
                H::CU(x) => H::CU(x.clone()),
                H::GF(x) => H::GF(x.clone()),
                H::GI(x) => H::GI(x.clone()),
                H::Hist(x) => H::Hist(x.clone()),
                H::VCF(x) => H::VCF(x.clone()),
                H::VCU(x) => H::VCU(x.clone()),
                H::VGF(x) => H::VGF(x.clone()),
                H::VGI(x) => H::VGI(x.clone()),
                H::VH(x) => H::VH(x.clone()),
                H::Reg(x) => H::Reg(x.clone()),
                H::LCF(x) => H::LCF(x.clone()),
                H::LCU(x) => H::LCU(x.clone()),
                H::LH(x) => H::LH(x.clone()),
                H::LVCF(x) => H::LVCF(x.clone()),
                H::LVCU(x) => H::LVCU(x.clone()),
                H::LVH(x) => H::LVH(x.clone()),
                _ => {
                    slots.push(H::Dead);
                    return "OBad".to_string();
                }
            };
            slots.push(h);
            "OUnit".to_string()
        }
        "OpDrop" => {
            let s = t.usize();
            match &slots[s] {
                H::Timer(_) | H::LTimer(_) | H::Dead => "OBad".to_string(),
                _ => {
                    slots[s] = H::Dead; // drops the old handle
                    "OUnit".to_string()
                }
            }
        }
        "OpLvInc" => {
            let s = t.usize();
            let vals = t.strings();
            let v = strs(&vals);
            let d = num(t);
            match (&mut slots[s], d) {
                (H::LVCF(x), Num::F(d)) => x.with_label_values(&v).inc_by(d),
                (H::LVCU(x), Num::U(d)) => x.with_label_values(&v).inc_by(d),
                _ => return "OBad".to_string(),
            }
            "OUnit".to_string()
        }
        "OpLvObserve" => {
            let s = t.usize();
            let vals = t.strings();
            let v = strs(&vals);
            let d = t.f64();
            match &mut slots[s] {
                H::LVH(x) => x.with_label_values(&v).observe(d),
                _ => return "OBad".to_string(),
            }
            "OUnit".to_string()
        }
        "OpLvRemove" => {
            let s = t.usize();
            let vals = t.strings();
            let v = strs(&vals);
            match &mut slots[s] {
                H::LVCF(x) => cres(&x.remove_label_values(&v)),
                H::LVCU(x) => cres(&x.remove_label_values(&v)),
                H::LVH(x) => cres(&x.remove_label_values(&v)),
                _ => "OBad".to_string(),
            }
        }
        "OpTimer" => {
            let s = t.usize();
            let h = match &slots[s] {
                H::Hist(x) => H::Timer(x.start_timer()),
                H::LH(x) => H::LTimer(x.start_timer()),
                _ => {
                    slots.push(H::Dead);
                    return "OBad".to_string();
                }
            };
            slots.push(h);
            "OUnit".to_string()
        }
        "OpTimerStop" => {
            let s = t.usize();
            let mode = t.word();
            let secs = t.u64();
            let nanos = t.u64();
            // "TDropT": the timer is moved to another thread and dropped there (shared timers only)
            let h = std::mem::replace(&mut slots[s], H::Dead);
            match h {
                H::Timer(x) => {
                    let run = move || {
                        push_elapsed(secs, nanos);
                        match mode {
                            "TRecord" => format!("OF64 {}", cf64(x.stop_and_record())),
                            "TDiscard" => format!("OF64 {}", cf64(x.stop_and_discard())),
                            "TObserve" => {
                                x.observe_duration();
                                "OUnit".to_string()
                            }
                            _ => {
                                drop_maybe_unwinding(x, nanos);
                                "OUnit".to_string()
                            }
                        }
                    };
                    if t.done() {
                        run()
                    } else {
                        // trailing token "T": perform the stop on a freshly spawned thread
                        let mode2 = mode.to_string();
                        let _ = mode2;
                        std::thread::scope(|sc| sc.spawn(run).join().unwrap())
                    }
                }
                H::LTimer(x) => {
                    push_elapsed(secs, nanos);
                    match mode {
                        "TRecord" => format!("OF64 {}", cf64(x.stop_and_record())),
                        "TDiscard" => format!("OF64 {}", cf64(x.stop_and_discard())),
                        "TObserve" => {
                            x.observe_duration();
                            "OUnit".to_string()
                        }
                        _ => {
                            drop_maybe_unwinding(x, nanos);
                            "OUnit".to_string()
                        }
                    }
                }
                other => {
                    slots[s] = other;
                    "OBad".to_string()
                }
            }
        }
        "OpClosure" => {
            let s = t.usize();
            let secs = t.u64();
            let nanos = t.u64();
            push_elapsed(secs, nanos);
            let r = match &slots[s] {
                // the timed closure looks at the histogram it is timed on (a read only: the model is unaffected)
                H::Hist(x) => x.observe_closure_duration(|| {
                    let _ = x.get_sample_count();
                    42u8
                }),
                H::LH(x) => x.observe_closure_duration(|| {
                    let _ = x.get_sample_count();
                    let _ = x.get_sample_sum();
                    42u8
                }),
                _ => return "OBad".to_string(),
            };
            if r == 42 {
                "OUnit".to_string()
            } else {
                "OBad".to_string()
            }
        }
        "OpRegistry" => {
            let prefix = t.opt(|t| t.string());
            let labels = t.opt(|t| t.pairs());
            let labels = labels.map(|l| {
                let mut m = HashMap::new();
                for (k, v) in l {
                    m.insert(k, v);
                }
                m
            });
            newslot!(slots, Registry::new_custom(prefix, labels), H::Reg)
        }
        "OpRegister" | "OpUnregister" => {
            let r = t.usize();
            let s = t.usize();
            match (&slots[r], boxed(&slots[s])) {
                (H::Reg(reg), Some(b)) => {
                    if op == "OpRegister" {
                        cres(&reg.register(b))
                    } else {
                        cres(&reg.unregister(b))
                    }
                }
                _ => "OBad".to_string(),
            }
        }
        "OpGather" => {
            let r = t.usize();
            match &slots[r] {
                H::Reg(reg) => format!("OFams {}", cmfs(&reg.gather())),
                _ => "OBad".to_string(),
            }
        }
        "OpCustom" => {
            let ds = t.list(|t| {
                let fq = t.string();
                let help = t.string();
                let vars = t.strings();
                let consts = t.pairs();
                let mut m = HashMap::new();
                for (k, v) in consts {
                    m.insert(k, v);
                }
                Desc::new(fq, help, vars, m)
            });
            let fams = build::families(t);
            let mut descs = vec![];
            let mut ok = true;
            for d in ds {
                match d {
                    Ok(d) => descs.push(d),
                    Err(_) => ok = false,
                }
            }
            if ok {
                slots.push(H::Custom(Custom { descs, fams }));
                "ORes (Ok tt)".to_string()
            } else {
                slots.push(H::Dead);
                "ORes (Err EMsg)".to_string()
            }
        }
        "OpPulling" => {
            let name = t.string();
            let help = t.string();
            let v = t.f64();
            newslot!(slots, PullingGauge::new(name, help, Box::new(move || v)), H::Pulling)
        }
        "OpCollect" => {
            let s = t.usize();
            match boxed(&slots[s]) {
                Some(b) => format!("OFamsU {}", cmfs(&b.collect())),
                None => "OBad".to_string(),
            }
        }
        "OpDescOf" => {
            let s = t.usize();
            match boxed(&slots[s]) {
                Some(b) => format!("ODescs {}", clist(&b.desc(), |d| desc_obs(d))),
                None => "OBad".to_string(),
            }
        }
        "OpLinearBuckets" => {
            let a = t.f64();
            let b = t.f64();
            let n = t.usize();
            match linear_buckets(a, b, n) {
                Ok(v) => format!("OBuckets (Some {})", clist(&v, |x| cf64(*x))),
                Err(_) => "OBuckets None".to_string(),
            }
        }
        "OpExpBuckets" => {
            let a = t.f64();
            let b = t.f64();
            let n = t.usize();
            match exponential_buckets(a, b, n) {
                Ok(v) => format!("OBuckets (Some {})", clist(&v, |x| cf64(*x))),
                Err(_) => "OBuckets None".to_string(),
            }
        }
        w => panic!("unknown op {}", w),
    }
}

/// Runs one scenario line on a worker thread with a watchdog.  Returns the Gallina list of
/// observations; a scenario that does not finish in time ends with `OHung`.
pub fn run_line(line: &str, timeout: Duration) -> String {
    let ops: Vec<String> = line.split('|').skip(1).map(|s| s.trim().to_string()).collect();
    let out: Arc<Mutex<Vec<String>>> = Arc::new(Mutex::new(vec![]));
    let (tx, rx) = std::sync::mpsc::channel::<()>();
    let out2 = out.clone();
    std::thread::spawn(move || {
        let mut slots: Vec<H> = vec![];
        for opline in &ops {
            if opline.is_empty() {
                continue;
            }
            let mut t = Tok::new(opline);
            let nslots = slots.len();
            let r = catch_unwind(AssertUnwindSafe(|| step(&mut slots, &mut t)));
            let o = match r {
                Ok(o) => o,
                Err(_) => {
                    // a constructor-like op must still have appended its slot
                    let w = opline.split_whitespace().next().unwrap_or("");
                    let ctor = matches!(
                        w,
                        "OpCounter" | "OpGauge" | "OpHistogram" | "OpCounterVec" | "OpGaugeVec" | "OpHistVec" | "OpWith"
                            | "OpWithMap" | "OpLocal" | "OpClone" | "OpTimer" | "OpRegistry" | "OpCustom" | "OpPulling"
                    );
                    if ctor && slots.len() == nslots {
                        slots.push(H::Dead);
                    }
                    "OPanic".to_string()
                }
            };
            out2.lock().unwrap().push(o);
        }
        // drop the handles in reverse creation order (deterministic)
        while let Some(h) = slots.pop() {
            let _ = catch_unwind(AssertUnwindSafe(move || drop(h)));
        }
        let _ = tx.send(());
    });
    let finished = rx.recv_timeout(timeout).is_ok();
    let mut v = out.lock().unwrap().clone();
    if !finished {
        v.push("OHung".to_string());
    }
    format!("[{}]", v.join("; "))
}
