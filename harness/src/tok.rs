//! Token reader for the line protocol: whitespace separated tokens; strings hex-encoded UTF-8
//! ("-" = empty); f64 as 16 hex digits of the bit pattern; lists as `<n> item*`; options as
//! `0` | `1 item`.
pub struct Tok<'a> {
    it: std::str::SplitWhitespace<'a>,
}

impl<'a> Tok<'a> {
    pub fn new(s: &'a str) -> Self {
        Tok { it: s.split_whitespace() }
    }
    pub fn word(&mut self) -> &'a str {
        self.it.next().expect("unexpected end of line")
    }
    pub fn done(&mut self) -> bool {
        self.it.clone().next().is_none()
    }
    pub fn string(&mut self) -> String {
        let w = self.word();
        if w == "-" {
            return String::new();
        }
        let b: Vec<u8> = (0..w.len() / 2)
            .map(|i| u8::from_str_radix(&w[2 * i..2 * i + 2], 16).expect("bad hex"))
            .collect();
        String::from_utf8(b).expect("bad utf8")
    }
    pub fn bytes(&mut self) -> Vec<u8> {
        let w = self.word();
        if w == "-" {
            return vec![];
        }
        (0..w.len() / 2)
            .map(|i| u8::from_str_radix(&w[2 * i..2 * i + 2], 16).expect("bad hex"))
            .collect()
    }
    pub fn u64(&mut self) -> u64 {
        self.word().parse().expect("bad u64")
    }
    pub fn i64(&mut self) -> i64 {
        self.word().parse().expect("bad i64")
    }
    pub fn usize(&mut self) -> usize {
        self.word().parse().expect("bad usize")
    }
    pub fn f64(&mut self) -> f64 {
        f64::from_bits(u64::from_str_radix(self.word(), 16).expect("bad f64 bits"))
    }
    /// `~` = "leave this field unset" (the builder then skips the setter call)
    pub fn string_opt(&mut self) -> Option<String> {
        if self.it.clone().next() == Some("~") {
            self.word();
            return None;
        }
        Some(self.string())
    }
    pub fn u64_opt(&mut self) -> Option<u64> {
        if self.it.clone().next() == Some("~") {
            self.word();
            return None;
        }
        Some(self.u64())
    }
    pub fn f64_opt(&mut self) -> Option<f64> {
        if self.it.clone().next() == Some("~") {
            self.word();
            return None;
        }
        Some(self.f64())
    }
    pub fn list<T>(&mut self, mut f: impl FnMut(&mut Self) -> T) -> Vec<T> {
        let n = self.usize();
        (0..n).map(|_| f(self)).collect()
    }
    pub fn opt<T>(&mut self, mut f: impl FnMut(&mut Self) -> T) -> Option<T> {
        match self.word() {
            "0" => None,
            "1" => Some(f(self)),
            w => panic!("bad option tag {}", w),
        }
    }
    pub fn strings(&mut self) -> Vec<String> {
        self.list(|t| t.string())
    }
    pub fn pairs(&mut self) -> Vec<(String, String)> {
        self.list(|t| {
            let k = t.string();
            let v = t.string();
            (k, v)
        })
    }
}
