//! Encoder scenarios.
//!   `E <entry> <fail_after> <prefill-hex> <families>`  entry in text|utf8|string|pb
//!       -> `EOk [bytes]` | `EErr <err> [bytes written so far]` | `EPanic`
//!       (bytes = the whole output buffer including the prefill; fail_after = -1: the writer
//!        never fails, n >= 0: the writer fails with an io error once n bytes were accepted)
//!   `F <n> <f64 bits>*`  -> Gallina list of (bits, code points of Rust's `to_string`)
//!   `I <n> <i64>*`       -> same for i64 `to_string`
use crate::build;
use crate::fmt::*;
use crate::tok::Tok;
use prometheus::{Encoder, TextEncoder};
use std::io::{self, Write};
use std::panic::{catch_unwind, AssertUnwindSafe};

struct LimitWriter {
    buf: Vec<u8>,
    budget: i64,
}
impl Write for LimitWriter {
    fn write(&mut self, b: &[u8]) -> io::Result<usize> {
        if self.budget < 0 {
            self.buf.extend_from_slice(b);
            return Ok(b.len());
        }
        if self.budget == 0 && !b.is_empty() {
            return Err(io::Error::new(io::ErrorKind::Other, "writer full"));
        }
        let n = std::cmp::min(self.budget as usize, b.len());
        self.buf.extend_from_slice(&b[..n]);
        self.budget -= n as i64;
        Ok(n)
    }
    fn flush(&mut self) -> io::Result<()> {
        Ok(())
    }
}

fn cbytes(b: &[u8]) -> String {
    let v: Vec<String> = b.iter().map(|x| x.to_string()).collect();
    format!("[{}]", v.join(";"))
}

pub fn run_e(line: &str) -> String {
    let mut t = Tok::new(line);
    let _ = t.word();
    let entry = t.word().to_string();
    let fail_after = t.i64();
    let prefill = t.bytes();
    let fams = build::families(&mut t);
    let r = catch_unwind(AssertUnwindSafe(|| match entry.as_str() {
        "text" => {
            let mut w = LimitWriter { buf: prefill.clone(), budget: fail_after };
            let r = TextEncoder::new().encode(&fams, &mut w);
            (r.map_err(|e| cerr(&e)), w.buf)
        }
        "utf8" => {
            let mut s = String::from_utf8(prefill.clone()).expect("prefill must be utf8");
            let r = TextEncoder::new().encode_utf8(&fams, &mut s);
            (r.map_err(|e| cerr(&e)), s.into_bytes())
        }
        "string" => match TextEncoder::new().encode_to_string(&fams) {
            Ok(s) => (Ok(()), s.into_bytes()),
            Err(e) => (Err(cerr(&e)), vec![]),
        },
        "pb" => pb(&fams, &prefill, fail_after),
        w => panic!("bad entry {}", w),
    }));
    match r {
        Ok((Ok(()), b)) => format!("EOk {}", cbytes(&b)),
        Ok((Err(e), b)) => format!("EErr {} {}", e, cbytes(&b)),
        Err(_) => "EPanic".to_string(),
    }
}

#[cfg(feature = "protobuf")]
fn pb(fams: &[prometheus::proto::MetricFamily], prefill: &[u8], fail_after: i64) -> (Result<(), String>, Vec<u8>) {
    // The families have a history: each one is first encoded WITHOUT its last sample (whatever the encoder or the
    // protobuf runtime caches inside a message - sizes, buffers - is then populated for that shorter family, and an
    // encode call has happened on this thread, possibly one that failed), then the sample is put back, then the
    // real call is made.  Encoding must depend on the current content only.
    let mut fams: Vec<prometheus::proto::MetricFamily> = fams.to_vec();
    for mf in fams.iter_mut() {
        let last = mf.mut_metric().pop();
        let mut sink: Vec<u8> = vec![];
        let _ = prometheus::ProtobufEncoder::new().encode(std::slice::from_ref(&*mf), &mut sink);
        if let Some(m) = last {
            mf.mut_metric().push(m);
        }
    }
    let mut w = LimitWriter { buf: prefill.to_vec(), budget: fail_after };
    let r = prometheus::ProtobufEncoder::new().encode(&fams, &mut w);
    (r.map_err(|e| cerr(&e)), w.buf)
}
#[cfg(not(feature = "protobuf"))]
fn pb(_: &[prometheus::proto::MetricFamily], _: &[u8], _: i64) -> (Result<(), String>, Vec<u8>) {
    (Err("EOther".to_string()), vec![])
}

pub fn run_f(line: &str) -> String {
    let mut t = Tok::new(line);
    let _ = t.word();
    let n = t.usize();
    let v: Vec<String> = (0..n)
        .map(|_| {
            let x = t.f64();
            format!("({},{})", canon_bits(x), cstr(&x.to_string()))
        })
        .collect();
    format!("[{}]", v.join(";"))
}
pub fn run_i(line: &str) -> String {
    let mut t = Tok::new(line);
    let _ = t.word();
    let n = t.usize();
    let v: Vec<String> = (0..n)
        .map(|_| {
            let x = t.i64();
            format!("({},{})", cz(x), cstr(&x.to_string()))
        })
        .collect();
    format!("[{}]", v.join(";"))
}
