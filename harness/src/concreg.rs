//! Concurrent registry scenarios (C06, concurrent part): object kind `reg` of the `C` lines of conc.rs.
//!
//! Line:  `C reg <ncollectors> <collector>* | <ops of thread 0> | ... | S <schedule>`
//!   collector ::= <ndescs> (<fq name> <help> <npairs> (<label name> <label value>)*)*      (strings hex-encoded, see tok.rs)
//!   ops       ::= register <i> | unregister <i> | gather
//! One fresh `Registry::new()` per line (its RwLock is shim cell 0: the first primitive created after `reset_ids`).
//! Every call hands the registry a fresh boxed custom collector carrying the descriptors of collector <i>; its `desc()` and
//! `collect()` are scheduled steps of the calling thread (reported as `RgDesc t i` / `RgCollect t i`), so the scheduler can
//! preempt a registration inside its critical section and between its lock events.
//! Output: a Gallina `list revent` (coq/Model/RegConc.v): RgCall / RgRet markers, RgLock / RgUnlock (the shim's lock events on
//! the registry's RwLock), RgDesc / RgCollect, and the verdicts RgPanic / RgEStuck / RgEDeadlock / RgELivelock / RgNoHooks.
//! `RgNoHooks` = the registry's lock is not the shim's (src/registry.rs lacks the `cfg(prometheus_verif)` import switch).
#![cfg(prometheus_verif)]
use crate::tok::Tok;
use prometheus::core::{Collector, Desc};
use prometheus::verif_sync::{self, Hook, Outcome, Point};
use prometheus::{proto, Registry};
use std::cell::RefCell;
use std::collections::HashMap;
use std::sync::atomic::{AtomicBool, Ordering};
use std::sync::Arc;

pub type Probe = Arc<dyn Fn(String) + Send + Sync>;
thread_local! { static PROBE: RefCell<Option<(usize, Probe)>> = RefCell::new(None); }
/// installs the marker function of the calling worker thread (a scheduled step that logs one line)
pub fn set_probe(me: usize, p: Probe) {
    PROBE.with(|c| *c.borrow_mut() = Some((me, p)));
}
fn probe(kind: &str, idx: usize) {
    let cur = PROBE.with(|c| c.borrow().clone());
    if let Some((me, p)) = cur {
        p(format!("{} {} {}", kind, me, idx));
    }
}

struct Probed {
    idx: usize,
    descs: Vec<Desc>,
}
impl Collector for Probed {
    fn desc(&self) -> Vec<&Desc> {
        probe("RgDesc", self.idx);
        self.descs.iter().collect()
    }
    fn collect(&self) -> Vec<proto::MetricFamily> {
        probe("RgCollect", self.idx);
        // one family per descriptor, one sample each, labelled with the descriptor's constant labels
        self.descs
            .iter()
            .map(|d| {
                let mut mf = proto::MetricFamily::default();
                mf.set_name(d.fq_name.clone());
                mf.set_help(d.help.clone());
                mf.set_field_type(proto::MetricType::COUNTER);
                let mut m = proto::Metric::default();
                m.set_label(d.const_label_pairs.clone());
                let mut c = proto::Counter::default();
                c.set_value((self.idx + 1) as f64);
                m.set_counter(c);
                mf.set_metric(vec![m]);
                mf
            })
            .collect()
    }
}

#[derive(Clone)]
pub struct RegObj {
    pub reg: Registry,
    pub cols: Arc<Vec<Vec<Desc>>>,
    /// false: the registry performed no shim lock event in a probe call
    pub instrumented: bool,
}

struct Detect(AtomicBool);
impl Hook for Detect {
    fn before(&self, p: &Point) -> bool {
        if let Point::LockTry { .. } = p {
            self.0.store(true, Ordering::SeqCst);
        }
        false
    }
    fn after(&self, _p: &Point, _o: Outcome) {}
}

/// parses the collectors of a `reg` object (after the word `reg`) and builds the registry
pub fn make(t: &mut Tok) -> RegObj {
    let cols: Vec<Vec<Desc>> = t.list(|t| {
        t.list(|t| {
            let fq = t.string();
            let help = t.string();
            let consts = t.pairs();
            let mut m = HashMap::new();
            for (k, v) in consts {
                m.insert(k, v);
            }
            Desc::new(fq, help, vec![], m).expect("reg scenario: invalid descriptor")
        })
    });
    let reg = Registry::new();
    // does the registry's lock report to the shim?  (a gather on the empty registry: one read-lock, no collector is called)
    let d = Arc::new(Detect(AtomicBool::new(false)));
    verif_sync::install(d.clone());
    let _ = reg.gather();
    verif_sync::uninstall();
    let instrumented = d.0.load(Ordering::SeqCst);
    RegObj { reg, cols: Arc::new(cols), instrumented }
}

fn res(r: prometheus::Result<()>) -> &'static str {
    match r {
        Ok(()) => "ROk",
        Err(prometheus::Error::AlreadyReg) => "RErrAlreadyReg",
        Err(_) => "RErrMsg",
    }
}
fn boxed(o: &RegObj, i: usize) -> Box<dyn Collector> {
    Box::new(Probed { idx: i, descs: o.cols[i].clone() })
}
pub fn register(o: &RegObj, i: usize) -> &'static str {
    res(o.reg.register(boxed(o, i)))
}
pub fn unregister(o: &RegObj, i: usize) -> &'static str {
    res(o.reg.unregister(boxed(o, i)))
}
/// `(RFams [(name, number of samples); ...])`, families in the order gather returns them
pub fn gather(o: &RegObj) -> String {
    let fams = o.reg.gather();
    let items: Vec<String> = fams.iter().map(|mf| format!("({},{})", crate::fmt::cstr(mf.name()), mf.get_metric().len())).collect();
    format!("(RFams [{}])", items.join(";"))
}

/// the event vocabulary of `reg` lines is its own type (coq/Model/RegConc.v): rename what the generic scheduler logged
pub fn rename(ev: &str) -> String {
    for (a, b) in [
        ("ELock ", "RgLock "),
        ("EUnlock ", "RgUnlock "),
        ("EPanic ", "RgPanic "),
        ("EOther ", "RgOther "),
        ("EAt ", "RgOther "),
    ] {
        if let Some(rest) = ev.strip_prefix(a) {
            if a == "EAt " {
                // an atomic operation inside a registry call: not part of the vocabulary, reported as an unknown step of the thread
                return format!("RgOther {}", rest.split_whitespace().next().unwrap_or("0"));
            }
            return format!("{}{}", b, rest);
        }
    }
    match ev {
        "EStuck" => "RgEStuck".to_string(),
        "EDeadlock" => "RgEDeadlock".to_string(),
        "ELivelock" => "RgELivelock".to_string(),
        "ENoHooks" => "RgNoHooks".to_string(),
        _ => ev.to_string(),
    }
}
