//! Printers producing Gallina terms (of the types in coq/Model/Proto.v and World.v) for what
//! the implementation returned.
use prometheus::proto;

pub fn cstr(s: &str) -> String {
    let v: Vec<String> = s.chars().map(|c| (c as u32).to_string()).collect();
    format!("[{}]", v.join(";"))
}
pub fn canon_bits(x: f64) -> u64 {
    if x.is_nan() {
        0x7ff8000000000000
    } else {
        x.to_bits()
    }
}
pub fn cf64(x: f64) -> String {
    format!("(bits2f 0x{:016x})", canon_bits(x))
}
pub fn clist<T>(l: &[T], f: impl Fn(&T) -> String) -> String {
    let v: Vec<String> = l.iter().map(f).collect();
    format!("[{}]", v.join(";"))
}
pub fn copt<T>(o: Option<T>, f: impl Fn(T) -> String) -> String {
    match o {
        None => "None".to_string(),
        Some(x) => format!("(Some {})", f(x)),
    }
}
pub fn cz(z: i64) -> String {
    if z < 0 {
        format!("({})%Z", z)
    } else {
        format!("{}%Z", z)
    }
}
pub fn clp(lp: &proto::LabelPair) -> String {
    format!("(mkLP {} {})", cstr(lp.name()), cstr(lp.value()))
}
pub fn cbucket(b: &proto::Bucket) -> String {
    format!("(mkBucket {} {})", b.cumulative_count(), cf64(b.upper_bound()))
}
pub fn chist(h: &proto::Histogram) -> String {
    format!(
        "(mkHist {} {} {})",
        h.get_sample_count(),
        cf64(h.get_sample_sum()),
        clist(h.get_bucket(), cbucket)
    )
}
pub fn csummary(s: &proto::Summary) -> String {
    format!(
        "(mkSummary {} {} {})",
        s.sample_count(),
        cf64(s.sample_sum()),
        clist(s.get_quantile(), |q| format!("(mkQuantile {} {})", cf64(q.quantile()), cf64(q.value())))
    )
}
pub fn ctype(t: proto::MetricType) -> &'static str {
    match t {
        proto::MetricType::COUNTER => "COUNTER",
        proto::MetricType::GAUGE => "GAUGE",
        proto::MetricType::SUMMARY => "SUMMARY",
        proto::MetricType::UNTYPED => "UNTYPED",
        proto::MetricType::HISTOGRAM => "HISTOGRAM",
    }
}

#[cfg(feature = "protobuf")]
pub fn cmetric(m: &proto::Metric) -> String {
    format!(
        "(mkMetric {} {} {} {} {} {} {})",
        clist(m.get_label(), clp),
        copt(m.gauge.as_ref(), |g| cf64(g.value())),
        copt(m.counter.as_ref(), |c| cf64(c.value())),
        copt(m.summary.as_ref(), csummary),
        copt(m.untyped.as_ref(), |u| cf64(u.value())),
        copt(m.histogram.as_ref(), chist),
        copt(m.timestamp_ms, cz)
    )
}

/// Without the protobuf data model presence is not observable: print the accessor view,
/// i.e. every field as present (the Coq side compares through `view`).
#[cfg(not(feature = "protobuf"))]
#[allow(deprecated)]
pub fn cmetric(m: &proto::Metric) -> String {
    format!(
        "(mkMetric {} (Some {}) (Some {}) (Some {}) (Some {}) (Some {}) (Some {}))",
        clist(m.get_label(), clp),
        cf64(m.get_gauge().get_value()),
        cf64(m.get_counter().get_value()),
        csummary(m.get_summary()),
        cf64(m.get_untyped().get_value()),
        chist(m.get_histogram()),
        cz(m.timestamp_ms())
    )
}

pub fn cmf(mf: &proto::MetricFamily) -> String {
    format!(
        "(mkMF {} {} {} {})",
        cstr(mf.name()),
        cstr(mf.help()),
        ctype(mf.get_field_type()),
        clist(mf.get_metric(), cmetric)
    )
}
pub fn cmfs(mfs: &[proto::MetricFamily]) -> String {
    clist(mfs, cmf)
}

pub fn cerr(e: &prometheus::Error) -> String {
    match e {
        prometheus::Error::AlreadyReg => "EAlreadyReg".to_string(),
        prometheus::Error::InconsistentCardinality { expect, got } => format!("(ECard {} {})", expect, got),
        prometheus::Error::Msg(_) => "EMsg".to_string(),
        _ => "EOther".to_string(),
    }
}
pub fn cres<T>(r: &prometheus::Result<T>) -> String {
    match r {
        Ok(_) => "ORes (Ok tt)".to_string(),
        Err(e) => format!("ORes (Err {})", cerr(e)),
    }
}
