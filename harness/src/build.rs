//! Builders: wire tokens -> library values (Opts, HistogramOpts, MetricFamily literals).
use crate::tok::Tok;
use prometheus::{proto, HistogramOpts, Opts};
use std::collections::HashMap;

/// The same option values are assembled through different builder-method orders (chosen by a function of the values, so
/// that runs are reproducible): the result must not depend on the order in which the builder methods are called.
pub fn opts(t: &mut Tok) -> Opts {
    let ns = t.string();
    let sub = t.string();
    let name = t.string();
    let help = t.string();
    let consts = t.pairs();
    let vars = t.strings();
    match (name.len() + help.len() + consts.len()) % 3 {
        0 => {
            let mut o = Opts::new(name, help).namespace(ns).subsystem(sub);
            for (k, v) in consts {
                o = o.const_label(k, v);
            }
            if !vars.is_empty() {
                o = o.variable_labels(vars);
            }
            o
        }
        1 => {
            let mut m = HashMap::new();
            for (k, v) in consts {
                m.insert(k, v);
            }
            let mut o = Opts::new(name, help).const_labels(m).subsystem(sub).namespace(ns);
            for v in vars {
                o = o.variable_label(v);
            }
            o
        }
        _ => {
            let mut o = Opts::new(name, help);
            for (k, v) in consts {
                o = o.const_label(k, v);
            }
            o = o.namespace(ns);
            if !vars.is_empty() {
                o = o.variable_labels(vars);
            }
            o.subsystem(sub)
        }
    }
}

pub fn hopts(t: &mut Tok) -> HistogramOpts {
    let ns = t.string();
    let sub = t.string();
    let name = t.string();
    let help = t.string();
    let consts = t.pairs();
    let vars = t.strings();
    let buckets = t.list(|t| t.f64());
    match (name.len() + buckets.len()) % 3 {
        0 => {
            let mut o = Opts::new(name, help).namespace(ns).subsystem(sub);
            for (k, v) in consts {
                o = o.const_label(k, v);
            }
            if !vars.is_empty() {
                o = o.variable_labels(vars);
            }
            // HistogramOpts::from selects DEFAULT_BUCKETS; the scenario's list (possibly empty) replaces it
            HistogramOpts::from(o).buckets(buckets)
        }
        1 => {
            let mut m = HashMap::new();
            for (k, v) in consts {
                m.insert(k, v);
            }
            // buckets first: the later builder calls must keep them
            let mut h = HistogramOpts::new(name, help).buckets(buckets).namespace(ns).subsystem(sub).const_labels(m);
            if !vars.is_empty() {
                h = h.variable_labels(vars);
            }
            h
        }
        _ => {
            let mut h = HistogramOpts::new(name, help);
            for (k, v) in consts {
                h = h.const_label(k, v);
            }
            h = h.subsystem(sub).buckets(buckets).namespace(ns);
            for v in vars {
                h = h.variable_label(v);
            }
            h
        }
    }
}

pub fn label_map(kvs: &[(String, String)]) -> HashMap<&str, &str> {
    let mut m = HashMap::new();
    for (k, v) in kvs {
        m.insert(k.as_str(), v.as_str());
    }
    m
}

fn mtype(w: &str) -> proto::MetricType {
    match w {
        "COUNTER" => proto::MetricType::COUNTER,
        "GAUGE" => proto::MetricType::GAUGE,
        "SUMMARY" => proto::MetricType::SUMMARY,
        "UNTYPED" => proto::MetricType::UNTYPED,
        "HISTOGRAM" => proto::MetricType::HISTOGRAM,
        _ => panic!("bad metric type {}", w),
    }
}

#[allow(deprecated)]
pub fn metric(t: &mut Tok) -> proto::Metric {
    let labels = t.pairs();
    let mut m = proto::Metric::default();
    let lps: Vec<proto::LabelPair> = labels
        .into_iter()
        .map(|(k, v)| {
            let mut lp = proto::LabelPair::default();
            lp.set_name(k);
            lp.set_value(v);
            lp
        })
        .collect();
    // a sample object is often a template that gets re-labelled: for about half of the label sets (chosen by a function of the
    // values, so that every run of a scenario does the same) the labels are first set to other values under the same names
    if !lps.is_empty() && lps.iter().map(|lp| lp.get_value().len()).sum::<usize>() % 2 == 1 {
        let tmp: Vec<proto::LabelPair> = lps
            .iter()
            .map(|lp| {
                let mut x = lp.clone();
                x.set_value(format!("{}~", lp.get_value()));
                x
            })
            .collect();
        m.set_label(tmp);
    }
    m.set_label(lps);
    if let Some(v) = t.opt(|t| t.f64_opt()) {
        let mut g = proto::Gauge::default();
        if let Some(v) = v {
            g.set_value(v);
        }
        m.set_gauge(g);
    }
    if let Some(v) = t.opt(|t| t.f64_opt()) {
        let mut c = proto::Counter::default();
        if let Some(v) = v {
            c.set_value(v);
        }
        m.set_counter(c);
    }
    if let Some(s) = t.opt(|t| {
        let mut s = proto::Summary::default();
        if let Some(c) = t.u64_opt() {
            s.set_sample_count(c);
        }
        if let Some(x) = t.f64_opt() {
            s.set_sample_sum(x);
        }
        let qs = t.list(|t| {
            let mut q = proto::Quantile::default();
            if let Some(x) = t.f64_opt() {
                q.set_quantile(x);
            }
            if let Some(x) = t.f64_opt() {
                q.set_value(x);
            }
            q
        });
        s.set_quantile(qs);
        s
    }) {
        m.set_summary(s);
    }
    if let Some(v) = t.opt(|t| t.f64_opt()) {
        let mut u = proto::Untyped::default();
        if let Some(v) = v {
            u.set_value(v);
        }
        set_untyped(&mut m, u);
    }
    if let Some(h) = t.opt(|t| {
        let mut h = proto::Histogram::default();
        if let Some(c) = t.u64_opt() {
            h.set_sample_count(c);
        }
        if let Some(x) = t.f64_opt() {
            h.set_sample_sum(x);
        }
        let bs = t.list(|t| {
            let mut b = proto::Bucket::default();
            if let Some(c) = t.u64_opt() {
                b.set_cumulative_count(c);
            }
            if let Some(x) = t.f64_opt() {
                b.set_upper_bound(x);
            }
            b
        });
        h.set_bucket(bs);
        h
    }) {
        m.set_histogram(h);
    }
    if let Some(ts) = t.opt(|t| t.i64()) {
        m.set_timestamp_ms(ts);
    }
    m
}

#[cfg(feature = "protobuf")]
fn set_untyped(m: &mut proto::Metric, u: proto::Untyped) {
    m.untyped = protobuf::MessageField::some(u);
}
#[cfg(not(feature = "protobuf"))]
#[allow(deprecated)]
fn set_untyped(m: &mut proto::Metric, u: proto::Untyped) {
    m.set_untyped(u);
}

pub fn family(t: &mut Tok) -> proto::MetricFamily {
    let mut mf = proto::MetricFamily::default();
    // `~` leaves the field unset (reads back as the data model's default)
    if let Some(n) = t.string_opt() {
        mf.set_name(n);
    }
    if let Some(h) = t.string_opt() {
        mf.set_help(h);
    }
    match t.word() {
        "~" => {}
        w => mf.set_field_type(mtype(w)),
    }
    let ms = t.list(metric);
    mf.set_metric(ms);
    mf
}
pub fn families(t: &mut Tok) -> Vec<proto::MetricFamily> {
    t.list(family)
}
