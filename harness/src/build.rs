//! Builders: wire tokens -> library values (Opts, HistogramOpts, MetricFamily literals).
use crate::tok::Tok;
use prometheus::{proto, HistogramOpts, Opts};
use std::collections::HashMap;

pub fn opts(t: &mut Tok) -> Opts {
    let ns = t.string();
    let sub = t.string();
    let name = t.string();
    let help = t.string();
    let consts = t.pairs();
    let vars = t.strings();
    let mut o = Opts::new(name, help).namespace(ns).subsystem(sub);
    for (k, v) in consts {
        o = o.const_label(k, v);
    }
    if !vars.is_empty() {
        o = o.variable_labels(vars);
    }
    o
}

pub fn hopts(t: &mut Tok) -> HistogramOpts {
    let o = opts(t);
    let buckets = t.list(|t| t.f64());
    let mut h = HistogramOpts::from(o);
    // HistogramOpts::from selects DEFAULT_BUCKETS; the scenario's list (possibly empty) replaces it
    h = h.buckets(buckets);
    h
}

pub fn label_map(kvs: &[(String, String)]) -> HashMap<&str, &str> {
    let mut m = HashMap::new();
    for (k, v) in kvs {
        m.insert(k.as_str(), v.as_str());
    }
    m
}

fn mtype(w: &str) -> proto::MetricType {
    match w {
        "COUNTER" => proto::MetricType::COUNTER,
        "GAUGE" => proto::MetricType::GAUGE,
        "SUMMARY" => proto::MetricType::SUMMARY,
        "UNTYPED" => proto::MetricType::UNTYPED,
        "HISTOGRAM" => proto::MetricType::HISTOGRAM,
        _ => panic!("bad metric type {}", w),
    }
}

#[allow(deprecated)]
pub fn metric(t: &mut Tok) -> proto::Metric {
    let labels = t.pairs();
    let mut m = proto::Metric::default();
    let lps: Vec<proto::LabelPair> = labels
        .into_iter()
        .map(|(k, v)| {
            let mut lp = proto::LabelPair::default();
            lp.set_name(k);
            lp.set_value(v);
            lp
        })
        .collect();
    m.set_label(lps);
    if let Some(v) = t.opt(|t| t.f64_opt()) {
        let mut g = proto::Gauge::default();
        if let Some(v) = v {
            g.set_value(v);
        }
        m.set_gauge(g);
    }
    if let Some(v) = t.opt(|t| t.f64_opt()) {
        let mut c = proto::Counter::default();
        if let Some(v) = v {
            c.set_value(v);
        }
        m.set_counter(c);
    }
    if let Some(s) = t.opt(|t| {
        let mut s = proto::Summary::default();
        if let Some(c) = t.u64_opt() {
            s.set_sample_count(c);
        }
        if let Some(x) = t.f64_opt() {
            s.set_sample_sum(x);
        }
        let qs = t.list(|t| {
            let mut q = proto::Quantile::default();
            if let Some(x) = t.f64_opt() {
                q.set_quantile(x);
            }
            if let Some(x) = t.f64_opt() {
                q.set_value(x);
            }
            q
        });
        s.set_quantile(qs);
        s
    }) {
        m.set_summary(s);
    }
    if let Some(v) = t.opt(|t| t.f64_opt()) {
        let mut u = proto::Untyped::default();
        if let Some(v) = v {
            u.set_value(v);
        }
        set_untyped(&mut m, u);
    }
    if let Some(h) = t.opt(|t| {
        let mut h = proto::Histogram::default();
        if let Some(c) = t.u64_opt() {
            h.set_sample_count(c);
        }
        if let Some(x) = t.f64_opt() {
            h.set_sample_sum(x);
        }
        let bs = t.list(|t| {
            let mut b = proto::Bucket::default();
            if let Some(c) = t.u64_opt() {
                b.set_cumulative_count(c);
            }
            if let Some(x) = t.f64_opt() {
                b.set_upper_bound(x);
            }
            b
        });
        h.set_bucket(bs);
        h
    }) {
        m.set_histogram(h);
    }
    if let Some(ts) = t.opt(|t| t.i64()) {
        m.set_timestamp_ms(ts);
    }
    m
}

#[cfg(feature = "protobuf")]
fn set_untyped(m: &mut proto::Metric, u: proto::Untyped) {
    m.untyped = protobuf::MessageField::some(u);
}
#[cfg(not(feature = "protobuf"))]
#[allow(deprecated)]
fn set_untyped(m: &mut proto::Metric, u: proto::Untyped) {
    m.set_untyped(u);
}

pub fn family(t: &mut Tok) -> proto::MetricFamily {
    let mut mf = proto::MetricFamily::default();
    // `~` leaves the field unset (reads back as the data model's default)
    if let Some(n) = t.string_opt() {
        mf.set_name(n);
    }
    if let Some(h) = t.string_opt() {
        mf.set_help(h);
    }
    match t.word() {
        "~" => {}
        w => mf.set_field_type(mtype(w)),
    }
    let ms = t.list(metric);
    mf.set_metric(ms);
    mf
}
pub fn families(t: &mut Tok) -> Vec<proto::MetricFamily> {
    t.list(family)
}
