//! Macro scenarios (C20): `M ...`.  One line = one set of run-time argument values; every public arm of
//! labels!, opts!, histogram_opts! and of the register_*! / register_*_with_registry! macros is invoked with it,
//! each with and without trailing comma, next to its explicit-call twin.
//!
//! Line:   M name help ns sub ocon maps cl lp labels vals buckets x prefix rlabels [only <arm id>]
//!         (strings hex, pairs/lists as in tok.rs; ns/sub/ocon shape the Opts / HistogramOpts VALUE handed to the
//!          `$OPTS` arms; maps = the label maps of opts!; cl = the map of histogram_opts!; lp = the pairs of labels!;
//!          labels = label names; vals = label values used to reach a child; x = observed value;
//!          prefix/rlabels = the custom registry)
//! Output: `[(id, [macro observations], [twin observations]); ...]` as Gallina terms (coq/Spec/SpecC20.v explains
//!         the observation lists).  Arm ids and the `arm!` / `val!` lines below come from tools/c20_arms.py.
//!
//! The default registry is process-wide: every handle an invocation returned is unregistered from it afterwards,
//! so each arm run starts with an empty default registry; the twin uses a fresh `Registry::new()` in its place.
#![allow(unused_variables)]
use crate::fmt::*;
use crate::tok::Tok;
use prometheus::core::{Collector, Desc};
use prometheus::*;
use std::collections::HashMap;
use std::panic::{catch_unwind, AssertUnwindSafe};

#[derive(Clone)]
pub struct Cx {
    name: String,
    help: String,
    opts: Opts,
    hopts: HistogramOpts,
    maps: Vec<Vec<(String, String)>>,
    cl: Vec<(String, String)>,
    lp: Vec<(String, String)>,
    labels: Vec<String>,
    vals: Vec<String>,
    buckets: Vec<f64>,
    x: f64,
    prefix: Option<String>,
    rlabels: Option<Vec<(String, String)>>,
    only: Option<usize>,
}
impl Cx {
    fn want(&self, id: usize) -> bool {
        self.only.map_or(true, |o| o == id)
    }
    /// The registry remembers the label dimensions of every name it has ever seen, also after `unregister`, and the
    /// default registry lives as long as the process: every register arm gets its own metric name `<name>_<arm id>`
    /// (in the NAME argument and in the OPTS / HOPTS value alike).
    fn for_arm(&self, id: usize) -> Cx {
        let mut c = self.clone();
        c.name = format!("{}_{}", self.name, id);
        c.opts.name = c.name.clone();
        c.hopts.common_opts.name = c.name.clone();
        c
    }
}

pub enum Target {
    Default,
    Named,
}
pub enum Form {
    N,
    V,
    HN,
    HB,
    HV,
}

const OK: &str = "ORes (Ok tt)";
const BAD: &str = "OBad";

fn plain_opts(cx: &Cx, form: &Form) -> Opts {
    match form {
        Form::N => Opts::new(cx.name.clone(), cx.help.clone()),
        Form::V => cx.opts.clone(),
        _ => panic!("histogram form on a non-histogram arm"),
    }
}
fn hist_opts(cx: &Cx, form: &Form) -> HistogramOpts {
    match form {
        Form::HN => HistogramOpts::new(cx.name.clone(), cx.help.clone()),
        Form::HB => HistogramOpts::new(cx.name.clone(), cx.help.clone()).buckets(cx.buckets.clone()),
        Form::HV => cx.hopts.clone(),
        _ => panic!("plain form on a histogram arm"),
    }
}

/// What the harness needs from the ten handle types: the explicit constructor and an update through the handle.
pub trait Metric: Collector + Clone + 'static {
    const VEC: bool;
    fn build(cx: &Cx, form: &Form, labels: &[&str]) -> Result<Self>;
    fn touch(&self, cx: &Cx) -> Vec<String>;
}
macro_rules! scalar_metric {
    ($T:ty) => {
        impl Metric for $T {
            const VEC: bool = false;
            fn build(cx: &Cx, form: &Form, _labels: &[&str]) -> Result<Self> {
                <$T>::with_opts(plain_opts(cx, form))
            }
            fn touch(&self, _cx: &Cx) -> Vec<String> {
                self.inc();
                vec!["OUnit".to_string()]
            }
        }
    };
}
macro_rules! vec_metric {
    ($T:ty) => {
        impl Metric for $T {
            const VEC: bool = true;
            fn build(cx: &Cx, form: &Form, labels: &[&str]) -> Result<Self> {
                <$T>::new(plain_opts(cx, form), labels)
            }
            fn touch(&self, cx: &Cx) -> Vec<String> {
                let v: Vec<&str> = cx.vals.iter().map(|s| s.as_str()).collect();
                match self.get_metric_with_label_values(&v) {
                    Ok(m) => {
                        m.inc();
                        vec![OK.to_string(), "OUnit".to_string()]
                    }
                    Err(e) => vec![format!("ORes (Err {})", cerr(&e)), BAD.to_string()],
                }
            }
        }
    };
}
scalar_metric!(Counter);
scalar_metric!(IntCounter);
scalar_metric!(Gauge);
scalar_metric!(IntGauge);
vec_metric!(CounterVec);
vec_metric!(IntCounterVec);
vec_metric!(GaugeVec);
vec_metric!(IntGaugeVec);
impl Metric for Histogram {
    const VEC: bool = false;
    fn build(cx: &Cx, form: &Form, _labels: &[&str]) -> Result<Self> {
        Histogram::with_opts(hist_opts(cx, form))
    }
    fn touch(&self, cx: &Cx) -> Vec<String> {
        self.observe(cx.x);
        vec!["OUnit".to_string()]
    }
}
impl Metric for HistogramVec {
    const VEC: bool = true;
    fn build(cx: &Cx, form: &Form, labels: &[&str]) -> Result<Self> {
        HistogramVec::new(hist_opts(cx, form), labels)
    }
    fn touch(&self, cx: &Cx) -> Vec<String> {
        let v: Vec<&str> = cx.vals.iter().map(|s| s.as_str()).collect();
        match self.get_metric_with_label_values(&v) {
            Ok(m) => {
                m.observe(cx.x);
                vec![OK.to_string(), "OUnit".to_string()]
            }
            Err(e) => vec![format!("ORes (Err {})", cerr(&e)), BAD.to_string()],
        }
    }
}

fn desc_obs(d: &Desc) -> String {
    format!(
        "({},{},{},{},{},{})",
        cstr(&d.fq_name),
        cstr(&d.help),
        d.id,
        d.dim_hash,
        clist(&d.const_label_pairs, clp),
        clist(&d.variable_labels, |s| cstr(s))
    )
}
fn descs<M: Collector>(m: &M) -> String {
    format!("ODescs {}", clist(&m.desc(), |d| desc_obs(d)))
}
fn gathered(r: &Registry) -> String {
    format!("OFams {}", cmfs(&r.gather()))
}
fn new_custom(cx: &Cx) -> Result<Registry> {
    let labels = cx.rlabels.as_ref().map(|l| {
        let mut m = HashMap::new();
        for (k, v) in l {
            m.insert(k.clone(), v.clone());
        }
        m
    });
    Registry::new_custom(cx.prefix.clone(), labels)
}
fn no_handle<M: Metric>(o: &mut Vec<String>) {
    // desc and the update(s) without a handle
    o.push(BAD.to_string());
    o.push(BAD.to_string());
    if M::VEC {
        o.push(BAD.to_string());
    }
}

/// One arm: the macro invocation (twice) and its explicit twin (twice), each with both registries observed.
fn run_arm<M: Metric>(
    id: usize,
    cx: &Cx,
    lr: &[&str],
    target: Target,
    form: Form,
    call: &dyn Fn(&Registry) -> Result<M>,
) -> String {
    // ---------------- the macro
    let named = match new_custom(cx) {
        Ok(r) => r,
        Err(_) => return format!("({}, [OBad], [OBad])", id),
    };
    let dflt = default_registry();
    let mut mo = vec![OK.to_string(), OK.to_string()];
    let invoke = |mo: &mut Vec<String>| -> Option<M> {
        match catch_unwind(AssertUnwindSafe(|| call(&named))) {
            Ok(Ok(h)) => {
                mo.push(OK.to_string());
                Some(h)
            }
            Ok(Err(e)) => {
                mo.push(format!("ORes (Err {})", cerr(&e)));
                None
            }
            Err(_) => {
                mo.push("OPanic".to_string());
                None
            }
        }
    };
    let h1 = invoke(&mut mo);
    match &h1 {
        Some(h) => {
            mo.push(descs(h));
            mo.extend(h.touch(cx));
        }
        None => no_handle::<M>(&mut mo),
    }
    mo.push(gathered(dflt));
    mo.push(gathered(&named));
    let h2 = invoke(&mut mo);
    mo.push(gathered(dflt));
    mo.push(gathered(&named));
    for h in [&h1, &h2].iter().filter_map(|h| h.as_ref()) {
        let _ = unregister(Box::new(h.clone()));
    }
    // ---------------- the explicit calls
    let tdef = Registry::new();
    let tnamed = new_custom(cx).expect("custom registry");
    let tgt = match target {
        Target::Default => &tdef,
        Target::Named => &tnamed,
    };
    let mut to = vec![OK.to_string(), OK.to_string()];
    let c1 = M::build(cx, &form, lr);
    to.push(cres(&c1));
    match &c1 {
        Ok(m) => {
            to.push(cres(&tgt.register(Box::new(m.clone()))));
            to.push(descs(m));
            to.extend(m.touch(cx));
        }
        Err(_) => {
            to.push(BAD.to_string());
            no_handle::<M>(&mut to);
        }
    }
    to.push(gathered(&tdef));
    to.push(gathered(&tnamed));
    let c2 = M::build(cx, &form, lr);
    to.push(cres(&c2));
    match &c2 {
        Ok(m) => to.push(cres(&tgt.register(Box::new(m.clone())))),
        Err(_) => to.push(BAD.to_string()),
    }
    to.push(gathered(&tdef));
    to.push(gathered(&tnamed));
    format!("({}, [{}], [{}])", id, mo.join("; "), to.join("; "))
}

// ---------------- labels! / opts! / histogram_opts!: the value built
fn sorted_pairs(m: &HashMap<String, String>) -> String {
    let mut v: Vec<(&String, &String)> = m.iter().collect();
    v.sort();
    clist(&v, |(k, x)| format!("(mkLP {} {})", cstr(k), cstr(x)))
}
fn opts_obs(o: &Opts) -> String {
    format!(
        "[OStr {}; OStr {}; ODescs [({},{},0,0,{},{})]]",
        cstr(&o.namespace),
        cstr(&o.subsystem),
        cstr(&o.name),
        cstr(&o.help),
        sorted_pairs(&o.const_labels),
        clist(&o.variable_labels, |s| cstr(s))
    )
}
fn hopts_obs(h: &HistogramOpts) -> String {
    let o = opts_obs(&h.common_opts);
    format!("{}; OBuckets (Some {})]", &o[..o.len() - 1], clist(&h.buckets, |x| cf64(*x)))
}
fn map_obs(m: &HashMap<String, String>) -> String {
    format!("[ODescs [([],[],0,0,{},[])]]", sorted_pairs(m))
}
fn twin_labels(lp: &[(String, String)]) -> HashMap<String, String> {
    let mut m = HashMap::new();
    for (k, v) in lp {
        m.insert(k.clone(), v.clone());
    }
    m
}
fn twin_opts(cx: &Cx) -> Opts {
    let mut m: HashMap<String, String> = HashMap::new();
    for mp in &cx.maps {
        for (k, v) in mp {
            m.insert(k.clone(), v.clone());
        }
    }
    Opts::new(cx.name.clone(), cx.help.clone()).const_labels(m)
}
fn twin_hopts(cx: &Cx, arm: usize) -> HistogramOpts {
    let h = HistogramOpts::new(cx.name.clone(), cx.help.clone());
    match arm {
        0 => h,
        1 => h.buckets(cx.buckets.clone()),
        _ => h.buckets(cx.buckets.clone()).const_labels(twin_labels(&cx.cl)),
    }
}

macro_rules! arm {
    ($out:ident, $cx:ident, $lr:ident, $id:expr, $T:ty, $target:expr, $form:expr, |$r:ident| $call:expr) => {
        if $cx.want($id) {
            let cxa = $cx.for_arm($id);
            let $cx = &cxa;
            $out.push(run_arm::<$T>($id, $cx, &$lr, $target, $form, &|$r: &Registry| $call));
        }
    };
}
macro_rules! val {
    ($out:ident, $cx:ident, $id:expr, $cond:expr, $mac:expr, $twin:expr) => {
        if $cx.want($id) && $cond {
            $out.push(format!("({}, {}, {})", $id, $mac, $twin));
        }
    };
}

fn run_all(cx: &Cx) -> Vec<String> {
    let mut out: Vec<String> = vec![];
    let lr: Vec<&str> = cx.labels.iter().map(|s| s.as_str()).collect();
    let ms: Vec<HashMap<&str, &str>> = cx
        .maps
        .iter()
        .map(|mp| {
            let mut m = HashMap::new();
            for (k, v) in mp {
                m.insert(k.as_str(), v.as_str());
            }
            m
        })
        .collect();
    let cl = twin_labels(&cx.cl);
    // ---- generated by tools/c20_arms.py (begin)
    arm!(out, cx, lr, 0, Counter, Target::Default, Form::V, |r| register_counter!(cx.opts.clone()));
    arm!(out, cx, lr, 1, Counter, Target::Default, Form::V, |r| register_counter!(cx.opts.clone(),));
    arm!(out, cx, lr, 2, Counter, Target::Default, Form::N, |r| register_counter!(cx.name.clone(), cx.help.clone()));
    arm!(out, cx, lr, 3, Counter, Target::Default, Form::N, |r| register_counter!(cx.name.clone(), cx.help.clone(),));
    arm!(out, cx, lr, 4, Counter, Target::Named, Form::V, |r| register_counter_with_registry!(cx.opts.clone(), r));
    arm!(out, cx, lr, 5, Counter, Target::Named, Form::V, |r| register_counter_with_registry!(cx.opts.clone(), r,));
    arm!(out, cx, lr, 6, Counter, Target::Named, Form::N, |r| register_counter_with_registry!(cx.name.clone(), cx.help.clone(), r));
    arm!(out, cx, lr, 7, Counter, Target::Named, Form::N, |r| register_counter_with_registry!(cx.name.clone(), cx.help.clone(), r,));
    arm!(out, cx, lr, 8, IntCounter, Target::Default, Form::V, |r| register_int_counter!(cx.opts.clone()));
    arm!(out, cx, lr, 9, IntCounter, Target::Default, Form::V, |r| register_int_counter!(cx.opts.clone(),));
    arm!(out, cx, lr, 10, IntCounter, Target::Default, Form::N, |r| register_int_counter!(cx.name.clone(), cx.help.clone()));
    arm!(out, cx, lr, 11, IntCounter, Target::Default, Form::N, |r| register_int_counter!(cx.name.clone(), cx.help.clone(),));
    arm!(out, cx, lr, 12, IntCounter, Target::Named, Form::V, |r| register_int_counter_with_registry!(cx.opts.clone(), r));
    arm!(out, cx, lr, 13, IntCounter, Target::Named, Form::V, |r| register_int_counter_with_registry!(cx.opts.clone(), r,));
    arm!(out, cx, lr, 14, IntCounter, Target::Named, Form::N, |r| register_int_counter_with_registry!(cx.name.clone(), cx.help.clone(), r));
    arm!(out, cx, lr, 15, IntCounter, Target::Named, Form::N, |r| register_int_counter_with_registry!(cx.name.clone(), cx.help.clone(), r,));
    arm!(out, cx, lr, 16, Gauge, Target::Default, Form::V, |r| register_gauge!(cx.opts.clone()));
    arm!(out, cx, lr, 17, Gauge, Target::Default, Form::V, |r| register_gauge!(cx.opts.clone(),));
    arm!(out, cx, lr, 18, Gauge, Target::Default, Form::N, |r| register_gauge!(cx.name.clone(), cx.help.clone()));
    arm!(out, cx, lr, 19, Gauge, Target::Default, Form::N, |r| register_gauge!(cx.name.clone(), cx.help.clone(),));
    arm!(out, cx, lr, 20, Gauge, Target::Named, Form::V, |r| register_gauge_with_registry!(cx.opts.clone(), r));
    arm!(out, cx, lr, 21, Gauge, Target::Named, Form::V, |r| register_gauge_with_registry!(cx.opts.clone(), r,));
    arm!(out, cx, lr, 22, Gauge, Target::Named, Form::N, |r| register_gauge_with_registry!(cx.name.clone(), cx.help.clone(), r));
    arm!(out, cx, lr, 23, Gauge, Target::Named, Form::N, |r| register_gauge_with_registry!(cx.name.clone(), cx.help.clone(), r,));
    arm!(out, cx, lr, 24, IntGauge, Target::Default, Form::V, |r| register_int_gauge!(cx.opts.clone()));
    arm!(out, cx, lr, 25, IntGauge, Target::Default, Form::V, |r| register_int_gauge!(cx.opts.clone(),));
    arm!(out, cx, lr, 26, IntGauge, Target::Default, Form::N, |r| register_int_gauge!(cx.name.clone(), cx.help.clone()));
    arm!(out, cx, lr, 27, IntGauge, Target::Default, Form::N, |r| register_int_gauge!(cx.name.clone(), cx.help.clone(),));
    arm!(out, cx, lr, 28, IntGauge, Target::Named, Form::V, |r| register_int_gauge_with_registry!(cx.opts.clone(), r));
    arm!(out, cx, lr, 29, IntGauge, Target::Named, Form::V, |r| register_int_gauge_with_registry!(cx.opts.clone(), r,));
    arm!(out, cx, lr, 30, IntGauge, Target::Named, Form::N, |r| register_int_gauge_with_registry!(cx.name.clone(), cx.help.clone(), r));
    arm!(out, cx, lr, 31, IntGauge, Target::Named, Form::N, |r| register_int_gauge_with_registry!(cx.name.clone(), cx.help.clone(), r,));
    arm!(out, cx, lr, 32, CounterVec, Target::Default, Form::V, |r| register_counter_vec!(cx.opts.clone(), &lr[..]));
    arm!(out, cx, lr, 33, CounterVec, Target::Default, Form::V, |r| register_counter_vec!(cx.opts.clone(), &lr[..],));
    arm!(out, cx, lr, 34, CounterVec, Target::Default, Form::N, |r| register_counter_vec!(cx.name.clone(), cx.help.clone(), &lr[..]));
    arm!(out, cx, lr, 35, CounterVec, Target::Default, Form::N, |r| register_counter_vec!(cx.name.clone(), cx.help.clone(), &lr[..],));
    arm!(out, cx, lr, 36, CounterVec, Target::Named, Form::V, |r| register_counter_vec_with_registry!(cx.opts.clone(), &lr[..], r));
    arm!(out, cx, lr, 37, CounterVec, Target::Named, Form::V, |r| register_counter_vec_with_registry!(cx.opts.clone(), &lr[..], r,));
    arm!(out, cx, lr, 38, CounterVec, Target::Named, Form::N, |r| register_counter_vec_with_registry!(cx.name.clone(), cx.help.clone(), &lr[..], r));
    arm!(out, cx, lr, 39, CounterVec, Target::Named, Form::N, |r| register_counter_vec_with_registry!(cx.name.clone(), cx.help.clone(), &lr[..], r,));
    arm!(out, cx, lr, 40, IntCounterVec, Target::Default, Form::V, |r| register_int_counter_vec!(cx.opts.clone(), &lr[..]));
    arm!(out, cx, lr, 41, IntCounterVec, Target::Default, Form::V, |r| register_int_counter_vec!(cx.opts.clone(), &lr[..],));
    arm!(out, cx, lr, 42, IntCounterVec, Target::Default, Form::N, |r| register_int_counter_vec!(cx.name.clone(), cx.help.clone(), &lr[..]));
    arm!(out, cx, lr, 43, IntCounterVec, Target::Default, Form::N, |r| register_int_counter_vec!(cx.name.clone(), cx.help.clone(), &lr[..],));
    arm!(out, cx, lr, 44, IntCounterVec, Target::Named, Form::V, |r| register_int_counter_vec_with_registry!(cx.opts.clone(), &lr[..], r));
    arm!(out, cx, lr, 45, IntCounterVec, Target::Named, Form::V, |r| register_int_counter_vec_with_registry!(cx.opts.clone(), &lr[..], r,));
    arm!(out, cx, lr, 46, IntCounterVec, Target::Named, Form::N, |r| register_int_counter_vec_with_registry!(cx.name.clone(), cx.help.clone(), &lr[..], r));
    arm!(out, cx, lr, 47, IntCounterVec, Target::Named, Form::N, |r| register_int_counter_vec_with_registry!(cx.name.clone(), cx.help.clone(), &lr[..], r,));
    arm!(out, cx, lr, 48, GaugeVec, Target::Default, Form::V, |r| register_gauge_vec!(cx.opts.clone(), &lr[..]));
    arm!(out, cx, lr, 49, GaugeVec, Target::Default, Form::V, |r| register_gauge_vec!(cx.opts.clone(), &lr[..],));
    arm!(out, cx, lr, 50, GaugeVec, Target::Default, Form::N, |r| register_gauge_vec!(cx.name.clone(), cx.help.clone(), &lr[..]));
    arm!(out, cx, lr, 51, GaugeVec, Target::Default, Form::N, |r| register_gauge_vec!(cx.name.clone(), cx.help.clone(), &lr[..],));
    arm!(out, cx, lr, 52, GaugeVec, Target::Named, Form::V, |r| register_gauge_vec_with_registry!(cx.opts.clone(), &lr[..], r));
    arm!(out, cx, lr, 53, GaugeVec, Target::Named, Form::V, |r| register_gauge_vec_with_registry!(cx.opts.clone(), &lr[..], r,));
    arm!(out, cx, lr, 54, GaugeVec, Target::Named, Form::N, |r| register_gauge_vec_with_registry!(cx.name.clone(), cx.help.clone(), &lr[..], r));
    arm!(out, cx, lr, 55, GaugeVec, Target::Named, Form::N, |r| register_gauge_vec_with_registry!(cx.name.clone(), cx.help.clone(), &lr[..], r,));
    arm!(out, cx, lr, 56, IntGaugeVec, Target::Default, Form::V, |r| register_int_gauge_vec!(cx.opts.clone(), &lr[..]));
    arm!(out, cx, lr, 57, IntGaugeVec, Target::Default, Form::V, |r| register_int_gauge_vec!(cx.opts.clone(), &lr[..],));
    arm!(out, cx, lr, 58, IntGaugeVec, Target::Default, Form::N, |r| register_int_gauge_vec!(cx.name.clone(), cx.help.clone(), &lr[..]));
    arm!(out, cx, lr, 59, IntGaugeVec, Target::Default, Form::N, |r| register_int_gauge_vec!(cx.name.clone(), cx.help.clone(), &lr[..],));
    arm!(out, cx, lr, 60, IntGaugeVec, Target::Named, Form::V, |r| register_int_gauge_vec_with_registry!(cx.opts.clone(), &lr[..], r));
    arm!(out, cx, lr, 61, IntGaugeVec, Target::Named, Form::V, |r| register_int_gauge_vec_with_registry!(cx.opts.clone(), &lr[..], r,));
    arm!(out, cx, lr, 62, IntGaugeVec, Target::Named, Form::N, |r| register_int_gauge_vec_with_registry!(cx.name.clone(), cx.help.clone(), &lr[..], r));
    arm!(out, cx, lr, 63, IntGaugeVec, Target::Named, Form::N, |r| register_int_gauge_vec_with_registry!(cx.name.clone(), cx.help.clone(), &lr[..], r,));
    arm!(out, cx, lr, 64, Histogram, Target::Default, Form::HN, |r| register_histogram!(cx.name.clone(), cx.help.clone()));
    arm!(out, cx, lr, 65, Histogram, Target::Default, Form::HN, |r| register_histogram!(cx.name.clone(), cx.help.clone(),));
    arm!(out, cx, lr, 66, Histogram, Target::Default, Form::HB, |r| register_histogram!(cx.name.clone(), cx.help.clone(), cx.buckets.clone()));
    arm!(out, cx, lr, 67, Histogram, Target::Default, Form::HB, |r| register_histogram!(cx.name.clone(), cx.help.clone(), cx.buckets.clone(),));
    arm!(out, cx, lr, 68, Histogram, Target::Default, Form::HV, |r| register_histogram!(cx.hopts.clone()));
    arm!(out, cx, lr, 69, Histogram, Target::Default, Form::HV, |r| register_histogram!(cx.hopts.clone(),));
    arm!(out, cx, lr, 70, Histogram, Target::Named, Form::HN, |r| register_histogram_with_registry!(cx.name.clone(), cx.help.clone(), r));
    arm!(out, cx, lr, 71, Histogram, Target::Named, Form::HN, |r| register_histogram_with_registry!(cx.name.clone(), cx.help.clone(), r,));
    arm!(out, cx, lr, 72, Histogram, Target::Named, Form::HB, |r| register_histogram_with_registry!(cx.name.clone(), cx.help.clone(), cx.buckets.clone(), r));
    arm!(out, cx, lr, 73, Histogram, Target::Named, Form::HB, |r| register_histogram_with_registry!(cx.name.clone(), cx.help.clone(), cx.buckets.clone(), r,));
    arm!(out, cx, lr, 74, Histogram, Target::Named, Form::HV, |r| register_histogram_with_registry!(cx.hopts.clone(), r));
    arm!(out, cx, lr, 75, Histogram, Target::Named, Form::HV, |r| register_histogram_with_registry!(cx.hopts.clone(), r,));
    arm!(out, cx, lr, 76, HistogramVec, Target::Default, Form::HV, |r| register_histogram_vec!(cx.hopts.clone(), &lr[..]));
    arm!(out, cx, lr, 77, HistogramVec, Target::Default, Form::HV, |r| register_histogram_vec!(cx.hopts.clone(), &lr[..],));
    arm!(out, cx, lr, 78, HistogramVec, Target::Default, Form::HN, |r| register_histogram_vec!(cx.name.clone(), cx.help.clone(), &lr[..]));
    arm!(out, cx, lr, 79, HistogramVec, Target::Default, Form::HN, |r| register_histogram_vec!(cx.name.clone(), cx.help.clone(), &lr[..],));
    arm!(out, cx, lr, 80, HistogramVec, Target::Default, Form::HB, |r| register_histogram_vec!(cx.name.clone(), cx.help.clone(), &lr[..], cx.buckets.clone()));
    arm!(out, cx, lr, 81, HistogramVec, Target::Default, Form::HB, |r| register_histogram_vec!(cx.name.clone(), cx.help.clone(), &lr[..], cx.buckets.clone(),));
    arm!(out, cx, lr, 82, HistogramVec, Target::Named, Form::HV, |r| register_histogram_vec_with_registry!(cx.hopts.clone(), &lr[..], r));
    arm!(out, cx, lr, 83, HistogramVec, Target::Named, Form::HV, |r| register_histogram_vec_with_registry!(cx.hopts.clone(), &lr[..], r,));
    arm!(out, cx, lr, 84, HistogramVec, Target::Named, Form::HN, |r| register_histogram_vec_with_registry!(cx.name.clone(), cx.help.clone(), &lr[..], r));
    arm!(out, cx, lr, 85, HistogramVec, Target::Named, Form::HN, |r| register_histogram_vec_with_registry!(cx.name.clone(), cx.help.clone(), &lr[..], r,));
    arm!(out, cx, lr, 86, HistogramVec, Target::Named, Form::HB, |r| register_histogram_vec_with_registry!(cx.name.clone(), cx.help.clone(), &lr[..], cx.buckets.clone(), r));
    arm!(out, cx, lr, 87, HistogramVec, Target::Named, Form::HB, |r| register_histogram_vec_with_registry!(cx.name.clone(), cx.help.clone(), &lr[..], cx.buckets.clone(), r,));
    val!(out, cx, 88, cx.lp.len() == 0, map_obs(&labels!{}), map_obs(&twin_labels(&cx.lp)));
    val!(out, cx, 89, cx.lp.len() == 0, map_obs(&labels!{,}), map_obs(&twin_labels(&cx.lp)));
    val!(out, cx, 90, cx.lp.len() == 1, map_obs(&labels!{cx.lp[0].0.clone() => cx.lp[0].1.clone()}), map_obs(&twin_labels(&cx.lp)));
    val!(out, cx, 91, cx.lp.len() == 1, map_obs(&labels!{cx.lp[0].0.clone() => cx.lp[0].1.clone(),}), map_obs(&twin_labels(&cx.lp)));
    val!(out, cx, 92, cx.lp.len() == 2, map_obs(&labels!{cx.lp[0].0.clone() => cx.lp[0].1.clone(), cx.lp[1].0.clone() => cx.lp[1].1.clone()}), map_obs(&twin_labels(&cx.lp)));
    val!(out, cx, 93, cx.lp.len() == 2, map_obs(&labels!{cx.lp[0].0.clone() => cx.lp[0].1.clone(), cx.lp[1].0.clone() => cx.lp[1].1.clone(),}), map_obs(&twin_labels(&cx.lp)));
    val!(out, cx, 94, cx.lp.len() == 3, map_obs(&labels!{cx.lp[0].0.clone() => cx.lp[0].1.clone(), cx.lp[1].0.clone() => cx.lp[1].1.clone(), cx.lp[2].0.clone() => cx.lp[2].1.clone()}), map_obs(&twin_labels(&cx.lp)));
    val!(out, cx, 95, cx.lp.len() == 3, map_obs(&labels!{cx.lp[0].0.clone() => cx.lp[0].1.clone(), cx.lp[1].0.clone() => cx.lp[1].1.clone(), cx.lp[2].0.clone() => cx.lp[2].1.clone(),}), map_obs(&twin_labels(&cx.lp)));
    val!(out, cx, 96, ms.len() == 0, opts_obs(&opts!(cx.name.clone(), cx.help.clone())), opts_obs(&twin_opts(cx)));
    val!(out, cx, 97, ms.len() == 0, opts_obs(&opts!(cx.name.clone(), cx.help.clone(),)), opts_obs(&twin_opts(cx)));
    val!(out, cx, 98, ms.len() == 1, opts_obs(&opts!(cx.name.clone(), cx.help.clone(), ms[0].clone())), opts_obs(&twin_opts(cx)));
    val!(out, cx, 99, ms.len() == 1, opts_obs(&opts!(cx.name.clone(), cx.help.clone(), ms[0].clone(),)), opts_obs(&twin_opts(cx)));
    val!(out, cx, 100, ms.len() == 2, opts_obs(&opts!(cx.name.clone(), cx.help.clone(), ms[0].clone(), ms[1].clone())), opts_obs(&twin_opts(cx)));
    val!(out, cx, 101, ms.len() == 2, opts_obs(&opts!(cx.name.clone(), cx.help.clone(), ms[0].clone(), ms[1].clone(),)), opts_obs(&twin_opts(cx)));
    val!(out, cx, 102, ms.len() == 3, opts_obs(&opts!(cx.name.clone(), cx.help.clone(), ms[0].clone(), ms[1].clone(), ms[2].clone())), opts_obs(&twin_opts(cx)));
    val!(out, cx, 103, ms.len() == 3, opts_obs(&opts!(cx.name.clone(), cx.help.clone(), ms[0].clone(), ms[1].clone(), ms[2].clone(),)), opts_obs(&twin_opts(cx)));
    val!(out, cx, 104, true, hopts_obs(&histogram_opts!(cx.name.clone(), cx.help.clone())), hopts_obs(&twin_hopts(cx, 0)));
    val!(out, cx, 105, true, hopts_obs(&histogram_opts!(cx.name.clone(), cx.help.clone(),)), hopts_obs(&twin_hopts(cx, 0)));
    val!(out, cx, 106, true, hopts_obs(&histogram_opts!(cx.name.clone(), cx.help.clone(), cx.buckets.clone())), hopts_obs(&twin_hopts(cx, 1)));
    val!(out, cx, 107, true, hopts_obs(&histogram_opts!(cx.name.clone(), cx.help.clone(), cx.buckets.clone(),)), hopts_obs(&twin_hopts(cx, 1)));
    val!(out, cx, 108, true, hopts_obs(&histogram_opts!(cx.name.clone(), cx.help.clone(), cx.buckets.clone(), cl.clone())), hopts_obs(&twin_hopts(cx, 2)));
    val!(out, cx, 109, true, hopts_obs(&histogram_opts!(cx.name.clone(), cx.help.clone(), cx.buckets.clone(), cl.clone(),)), hopts_obs(&twin_hopts(cx, 2)));
    // ---- generated by tools/c20_arms.py (end)
    out
}

pub fn run_line(line: &str) -> String {
    let mut t = Tok::new(line);
    assert_eq!(t.word(), "M");
    let name = t.string();
    let help = t.string();
    let ns = t.string();
    let sub = t.string();
    let ocon = t.pairs();
    let maps = t.list(|t| t.pairs());
    let cl = t.pairs();
    let lp = t.pairs();
    let labels = t.strings();
    let vals = t.strings();
    let buckets = t.list(|t| t.f64());
    let x = t.f64();
    let prefix = t.opt(|t| t.string());
    let rlabels = t.opt(|t| t.pairs());
    let only = if !t.done() && t.word() == "only" { Some(t.usize()) } else { None };
    let mut opts = Opts::new(name.clone(), help.clone()).namespace(ns).subsystem(sub);
    for (k, v) in &ocon {
        opts = opts.const_label(k.clone(), v.clone());
    }
    let hopts = HistogramOpts::from(opts.clone()).buckets(buckets.clone());
    let cx = Cx { name, help, opts, hopts, maps, cl, lp, labels, vals, buckets, x, prefix, rlabels, only };
    format!("[{}]", run_all(&cx).join("; "))
}

/// `D n`: the FIRST use of the process-wide default registry, made by n threads at once.  Must be the first line a
/// harness process sees.  Every thread leaves a spin barrier and registers its own counter through
/// `register_int_counter!` (no registry named); afterwards `prometheus::gather()` - the same default registry - must
/// show every counter whose registration returned Ok, and registering such a counter again must be refused.
/// Output: `D ok=<registrations that returned Ok> missing=<of those, not gathered> readmitted=<of those, accepted twice>`.
pub fn run_first_use(line: &str) -> String {
    use std::sync::atomic::{AtomicBool, AtomicUsize, Ordering};
    use std::sync::Arc;
    let n: usize = line.split_whitespace().nth(1).and_then(|x| x.parse().ok()).unwrap_or(8);
    let go = Arc::new(AtomicBool::new(false));
    let ready = Arc::new(AtomicUsize::new(0));
    let mut hs = Vec::new();
    for i in 0..n {
        let (go, ready) = (go.clone(), ready.clone());
        hs.push(std::thread::spawn(move || {
            ready.fetch_add(1, Ordering::SeqCst);
            while !go.load(Ordering::SeqCst) {
                std::hint::spin_loop();
            }
            let name = format!("pv_first_use_{}", i);
            catch_unwind(AssertUnwindSafe(|| register_int_counter!(name, "h"))).ok().and_then(|r| r.ok())
        }));
    }
    while ready.load(Ordering::SeqCst) < n {
        std::hint::spin_loop();
    }
    go.store(true, Ordering::SeqCst);
    let handles: Vec<Option<IntCounter>> = hs.into_iter().map(|h| h.join().unwrap_or(None)).collect();
    let names: std::collections::HashSet<String> = prometheus::gather().iter().map(|f| f.get_name().to_string()).collect();
    let (mut ok, mut missing, mut readmitted) = (0, 0, 0);
    for (i, h) in handles.iter().enumerate() {
        if let Some(c) = h {
            ok += 1;
            if !names.contains(&format!("pv_first_use_{}", i)) {
                missing += 1;
            }
            if prometheus::register(Box::new(c.clone())).is_ok() {
                readmitted += 1;
            }
        }
    }
    format!("D ok={} missing={} readmitted={}", ok, missing, readmitted)
}
