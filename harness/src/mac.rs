//! Macro scenarios (C20): `M ...`.  Filled in by the C20 check.
pub fn run_line(_line: &str) -> String {
    "MUnimplemented".to_string()
}
