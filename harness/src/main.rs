//! `pv`: runs scenarios on the real prometheus crate (built from /repo's working tree) and
//! prints what it observed as Gallina terms, one line per scenario.
mod build;
mod conc;
mod concreg;
mod enc;
mod fmt;
mod mac;
mod pbw;
mod seq;
mod tok;

use std::io::{self, BufRead, Write};
use std::time::Duration;

fn main() {
    std::panic::set_hook(Box::new(|_| {}));
    let args: Vec<String> = std::env::args().collect();
    let timeout_ms: u64 = args
        .iter()
        .position(|a| a == "--timeout-ms")
        .and_then(|i| args.get(i + 1))
        .and_then(|s| s.parse().ok())
        .unwrap_or(5000);
    let stdin = io::stdin();
    let out = io::stdout();
    let mut out = out.lock();
    let mut hung = 0;
    for line in stdin.lock().lines() {
        let line = line.unwrap();
        let line = line.trim();
        if line.is_empty() {
            continue;
        }
        let res = match line.split_whitespace().next().unwrap() {
            "S" => seq::run_line(line, Duration::from_millis(timeout_ms)),
            "E" => enc::run_e(line),
            "F" => enc::run_f(line),
            "I" => enc::run_i(line),
            "M" => mac::run_line(line),
            "D" => mac::run_first_use(line),
            "C" => conc::run_line(line),
            "P" => pbw::run_line(line),
            w => panic!("unknown scenario kind {}", w),
        };
        if res.ends_with("OHung]") {
            hung += 1;
        }
        writeln!(out, "{}", res).unwrap();
        if hung > 8 {
            // too many leaked spinning threads: stop, the driver reports the rest as missing
            break;
        }
    }
    out.flush().unwrap();
    std::process::exit(0);
}
