//! Protobuf encoder scenarios on wire-level family literals (every `optional` field of the schema
//! can be left unset, which the setter-based literals of `build.rs` / the `E` line cannot express).
//!   `P <prefill-hex> <n> pfamily*`
//!       -> `EOk [bytes]` | `EErr <err> [bytes written so far]` | `EPanic`   (bytes include the prefill)
//!   pfamily  = opt(string) opt(string) opt(TYPE) list(pmetric)
//!   pmetric  = list(plabel) opt(pvalue) opt(pvalue) opt(psummary) opt(pvalue) opt(phist) opt(i64)
//!              (gauge, counter, summary, untyped, histogram, timestamp_ms)
//!   plabel   = opt(string) opt(string)          pvalue = opt(f64)
//!   psummary = opt(u64) opt(f64) list(opt(f64) opt(f64))
//!   phist    = opt(u64) opt(f64) list(opt(u64) opt(f64))
//! The messages are built by writing the public fields of the generated structs
//! (proto/proto_model.rs) directly, then handed to `ProtobufEncoder::encode`.
use crate::tok::Tok;

#[cfg(feature = "protobuf")]
mod imp {
    use crate::fmt::cerr;
    use crate::tok::Tok;
    use prometheus::proto;
    use prometheus::Encoder;
    use protobuf::{EnumOrUnknown, MessageField};
    use std::panic::{catch_unwind, AssertUnwindSafe};

    fn mtype(w: &str) -> proto::MetricType {
        match w {
            "COUNTER" => proto::MetricType::COUNTER,
            "GAUGE" => proto::MetricType::GAUGE,
            "SUMMARY" => proto::MetricType::SUMMARY,
            "UNTYPED" => proto::MetricType::UNTYPED,
            "HISTOGRAM" => proto::MetricType::HISTOGRAM,
            _ => panic!("bad metric type {}", w),
        }
    }

    fn label(t: &mut Tok) -> proto::LabelPair {
        let mut l = proto::LabelPair::default();
        l.name = t.opt(|t| t.string());
        l.value = t.opt(|t| t.string());
        l
    }
    fn summary(t: &mut Tok) -> proto::Summary {
        let mut s = proto::Summary::default();
        s.sample_count = t.opt(|t| t.u64());
        s.sample_sum = t.opt(|t| t.f64());
        s.quantile = t.list(|t| {
            let mut q = proto::Quantile::default();
            q.quantile = t.opt(|t| t.f64());
            q.value = t.opt(|t| t.f64());
            q
        });
        s
    }
    fn hist(t: &mut Tok) -> proto::Histogram {
        let mut h = proto::Histogram::default();
        h.sample_count = t.opt(|t| t.u64());
        h.sample_sum = t.opt(|t| t.f64());
        h.bucket = t.list(|t| {
            let mut b = proto::Bucket::default();
            b.cumulative_count = t.opt(|t| t.u64());
            b.upper_bound = t.opt(|t| t.f64());
            b
        });
        h
    }
    fn metric(t: &mut Tok) -> proto::Metric {
        let mut m = proto::Metric::default();
        m.label = t.list(label);
        if let Some(v) = t.opt(|t| t.opt(|t| t.f64())) {
            let mut g = proto::Gauge::default();
            g.value = v;
            m.gauge = MessageField::some(g);
        }
        if let Some(v) = t.opt(|t| t.opt(|t| t.f64())) {
            let mut c = proto::Counter::default();
            c.value = v;
            m.counter = MessageField::some(c);
        }
        if let Some(s) = t.opt(summary) {
            m.summary = MessageField::some(s);
        }
        if let Some(v) = t.opt(|t| t.opt(|t| t.f64())) {
            let mut u = proto::Untyped::default();
            u.value = v;
            m.untyped = MessageField::some(u);
        }
        if let Some(h) = t.opt(hist) {
            m.histogram = MessageField::some(h);
        }
        m.timestamp_ms = t.opt(|t| t.i64());
        m
    }
    fn family(t: &mut Tok) -> proto::MetricFamily {
        let mut f = proto::MetricFamily::default();
        f.name = t.opt(|t| t.string());
        f.help = t.opt(|t| t.string());
        f.type_ = t.opt(|t| EnumOrUnknown::new(mtype(t.word())));
        f.metric = t.list(metric);
        f
    }

    fn cbytes(b: &[u8]) -> String {
        let v: Vec<String> = b.iter().map(|x| x.to_string()).collect();
        format!("[{}]", v.join(";"))
    }

    pub fn run(t: &mut Tok) -> String {
        let prefill = t.bytes();
        let fams = t.list(family);
        let r = catch_unwind(AssertUnwindSafe(|| {
            let mut w: Vec<u8> = prefill.clone();
            let r = prometheus::ProtobufEncoder::new().encode(&fams, &mut w);
            (r.map_err(|e| cerr(&e)), w)
        }));
        match r {
            Ok((Ok(()), b)) => format!("EOk {}", cbytes(&b)),
            Ok((Err(e), b)) => format!("EErr {} {}", e, cbytes(&b)),
            Err(_) => "EPanic".to_string(),
        }
    }
}

#[cfg(not(feature = "protobuf"))]
mod imp {
    use crate::tok::Tok;
    pub fn run(_: &mut Tok) -> String {
        "EErr EOther []".to_string()
    }
}

pub fn run_line(line: &str) -> String {
    let mut t = Tok::new(line);
    let _ = t.word();
    imp::run(&mut t)
}
