(* Prototype: CAS-loop counter is linearizable; statement form for C01/C11. *)
From Coq Require Import List ZArith Lia Bool Arith.
Import ListNotations.

Section Cas.
Variable V : Type.
Variable veqb : V -> V -> bool.
Hypothesis veqb_spec : forall a b, reflect (a = b) (veqb a b).
Variable add : V -> V -> V.
Variable zero : V.

Definition tid := nat.
Inductive op := Inc (d : V) | Get | Set_ (v : V).
Inductive tst := Idle | IncLoad (d : V) | IncCas (d cur : V) | GetP | SetP (v : V).

(* events: invocation, linearisation (with the spec's return), response (with the actual return) *)
Inductive ev := EInv (t : tid) (o : op) | ELin (t : tid) (o : op) (r : option V) | ERet (t : tid) (o : op) (r : option V).

Record st := { cell : V; thr : tid -> tst }.
Definition upd (f : tid -> tst) t x := fun u => if Nat.eqb u t then x else f u.

(* schedule element: thread, op to invoke if idle, spurious-failure flag *)
Record choice := { c_t : tid; c_op : op; c_spur : bool }.

Definition step (s : st) (c : choice) : st * list ev :=
  let t := c_t c in
  match thr s t with
  | Idle =>
      match c_op c with
      | Inc d => ({| cell := cell s; thr := upd (thr s) t (IncLoad d) |}, [EInv t (Inc d)])
      | Get => ({| cell := cell s; thr := upd (thr s) t GetP |}, [EInv t Get])
      | Set_ v => ({| cell := cell s; thr := upd (thr s) t (SetP v) |}, [EInv t (Set_ v)])
      end
  | IncLoad d => ({| cell := cell s; thr := upd (thr s) t (IncCas d (cell s)) |}, [])
  | IncCas d cur =>
      if negb (c_spur c) && veqb (cell s) cur
      then ({| cell := add cur d; thr := upd (thr s) t Idle |}, [ELin t (Inc d) None; ERet t (Inc d) None])
      else ({| cell := cell s; thr := upd (thr s) t (IncLoad d) |}, [])
  | GetP => ({| cell := cell s; thr := upd (thr s) t Idle |}, [ELin t Get (Some (cell s)); ERet t Get (Some (cell s))])
  | SetP v => ({| cell := v; thr := upd (thr s) t Idle |}, [ELin t (Set_ v) None; ERet t (Set_ v) None])
  end.

Fixpoint run (s : st) (sched : list choice) : st * list ev :=
  match sched with
  | [] => (s, [])
  | c :: r => let '(s1, e1) := step s c in let '(s2, e2) := run s1 r in (s2, e1 ++ e2)
  end.

(* sequential spec *)
Definition spec_step (v : V) (o : op) : V * option V :=
  match o with Inc d => (add v d, None) | Get => (v, Some v) | Set_ x => (x, None) end.

Fixpoint lins (es : list ev) : list (op * option V) :=
  match es with
  | ELin _ o r :: t => (o, r) :: lins t
  | _ :: t => lins t
  | [] => []
  end.
Fixpoint spec_run (v : V) (os : list op) : V * list (option V) :=
  match os with
  | [] => (v, [])
  | o :: t => let '(v', r) := spec_step v o in let '(vf, rs) := spec_run v' t in (vf, r :: rs)
  end.

Lemma lins_app a b : lins (a ++ b) = lins a ++ lins b.
Proof. induction a as [|[| |] a IH]; cbn; auto. now rewrite IH. Qed.

Lemma spec_run_app v a b :
  spec_run v (a ++ b) = let '(v1, r1) := spec_run v a in let '(v2, r2) := spec_run v1 b in (v2, r1 ++ r2).
Proof.
  revert v; induction a as [|o a IH]; intros v; cbn.
  - destruct (spec_run v b); reflexivity.
  - destruct (spec_step v o) as [v' r]. rewrite IH. destruct (spec_run v' a) as [v1 r1]. destruct (spec_run v1 b). reflexivity.
Qed.

(* one step: its linearisation events, replayed from the cell before, give the cell after and the recorded returns *)
Lemma step_lin s c : let '(s', es) := step s c in spec_run (cell s) (map fst (lins es)) = (cell s', map snd (lins es)).
Proof.
  unfold step. destruct (thr s (c_t c)) as [|d|d cur| |v]; cbn.
  - destruct (c_op c); reflexivity.
  - reflexivity.
  - destruct (negb (c_spur c) && veqb (cell s) cur) eqn:E; cbn; [|reflexivity].
    apply andb_prop in E as [_ E]. destruct (veqb_spec (cell s) cur); [subst; reflexivity|discriminate].
  - reflexivity.
  - reflexivity.
Qed.

Theorem lin_ok sched : forall s0,
  let '(sf, es) := run s0 sched in spec_run (cell s0) (map fst (lins es)) = (cell sf, map snd (lins es)).
Proof.
  induction sched as [|c r IH]; intros s0; cbn; [reflexivity|].
  pose proof (step_lin s0 c) as H1. destruct (step s0 c) as [s1 e1].
  specialize (IH s1). destruct (run s1 r) as [s2 e2].
  rewrite lins_app, !map_app, spec_run_app, H1, IH. reflexivity.
Qed.

(* every response carries the return recorded at its linearisation event, emitted by the same step of the same thread *)
Inductive ret_after_lin : list ev -> Prop :=
| ral_nil : ret_after_lin []
| ral_inv t o es : ret_after_lin es -> ret_after_lin (EInv t o :: es)
| ral_pair t o r es : ret_after_lin es -> ret_after_lin (ELin t o r :: ERet t o r :: es).

Lemma ral_app a b : ret_after_lin a -> ret_after_lin b -> ret_after_lin (a ++ b).
Proof. induction 1; cbn; auto; constructor; auto. Qed.

Theorem ret_matches sched : forall s0, ret_after_lin (snd (run s0 sched)).
Proof.
  induction sched as [|c r IH]; intros s0; cbn; [constructor|].
  destruct (step s0 c) as [s1 e1] eqn:E. specialize (IH s1). destruct (run s1 r) as [s2 e2]. cbn in *.
  apply ral_app; auto.
  unfold step in E. destruct (thr s0 (c_t c)); [destruct (c_op c)| |destruct (negb _ && _)| |]; inversion E; subst; repeat constructor.
Qed.

End Cas.
Print Assumptions lin_ok.
