(* Prototype: UTF-8 encoding of scalar values; bytes <= 0xF4; prefix-freeness / injectivity. *)
From Coq Require Import List NArith ZArith Bool Lia.
Import ListNotations.
Open Scope N_scope.

Definition utf8c (c : N) : list N :=
  if c <? 0x80 then [c]
  else if c <? 0x800 then [0xC0 + c / 64; 0x80 + c mod 64]
  else if c <? 0x10000 then [0xE0 + c / 64 / 64; 0x80 + (c / 64) mod 64; 0x80 + c mod 64]
  else [0xF0 + c / 64 / 64 / 64; 0x80 + (c / 64 / 64) mod 64; 0x80 + (c / 64) mod 64; 0x80 + c mod 64].
Definition utf8 (s : list N) : list N := flat_map utf8c s.

Definition scalar (c : N) : Prop := c < 0x110000.
Definition SEP : N := 0xFF.

(* name quotient and remainder by 64 of a term, with the two defining facts, so that plain lia suffices *)
Ltac dm64 c :=
  let q := fresh "q" in let r := fresh "r" in let Hq := fresh "Hq" in let Hr := fresh "Hr" in
  pose proof (N.div_mod' c 64) as Hq; pose proof (N.mod_lt c 64 ltac:(discriminate)) as Hr;
  set (q := c / 64) in *; set (r := c mod 64) in *; clearbody q r.

Lemma utf8c_bytes c b : scalar c -> In b (utf8c c) -> b <= 0xF4.
Proof.
  unfold scalar, utf8c. intros Hc.
  destruct (N.ltb_spec c 0x80). { intros [<-|[]]. lia. }
  destruct (N.ltb_spec c 0x800). { dm64 c. intros [<-|[<-|[]]]; lia. }
  destruct (N.ltb_spec c 0x10000). { dm64 c. dm64 q. intros [<-|[<-|[<-|[]]]]; lia. }
  dm64 c. dm64 q. dm64 q0. intros [<-|[<-|[<-|[<-|[]]]]]; lia.
Qed.

Lemma utf8_no_sep s : Forall scalar s -> ~ In SEP (utf8 s).
Proof.
  induction 1 as [|c s Hc Hs IH]; cbn; [tauto|]. rewrite in_app_iff. intros [H|H]; [|tauto].
  apply (utf8c_bytes c _ Hc) in H. unfold SEP in H. lia.
Qed.

(* decoder for one scalar value: makes prefix-freeness a functional fact *)
Definition dec1 (l : list N) : option (N * list N) :=
  match l with
  | b0 :: r =>
      if b0 <? 0x80 then Some (b0, r)
      else if b0 <? 0xE0 then match r with b1 :: r' => Some ((b0 - 0xC0) * 64 + (b1 - 0x80), r') | _ => None end
      else if b0 <? 0xF0 then match r with b1 :: b2 :: r' => Some (((b0 - 0xE0) * 64 + (b1 - 0x80)) * 64 + (b2 - 0x80), r') | _ => None end
      else match r with b1 :: b2 :: b3 :: r' => Some ((((b0 - 0xF0) * 64 + (b1 - 0x80)) * 64 + (b2 - 0x80)) * 64 + (b3 - 0x80), r') | _ => None end
  | [] => None
  end.

Lemma dec1_utf8c c r : scalar c -> dec1 (utf8c c ++ r) = Some (c, r).
Proof.
  unfold scalar, utf8c. intros Hc.
  destruct (N.ltb_spec c 0x80) as [H1|H1].
  { cbn [app dec1]. destruct (N.ltb_spec c 0x80); [reflexivity|lia]. }
  destruct (N.ltb_spec c 0x800) as [H2|H2].
  { dm64 c. cbn [app dec1].
    destruct (N.ltb_spec (0xC0 + q) 0x80); [lia|]. destruct (N.ltb_spec (0xC0 + q) 0xE0); [|lia].
    f_equal. f_equal. lia. }
  destruct (N.ltb_spec c 0x10000) as [H3|H3].
  { dm64 c. dm64 q. cbn [app dec1].
    destruct (N.ltb_spec (0xE0 + q0) 0x80); [lia|]. destruct (N.ltb_spec (0xE0 + q0) 0xE0); [lia|].
    destruct (N.ltb_spec (0xE0 + q0) 0xF0); [|lia]. f_equal. f_equal. lia. }
  dm64 c. dm64 q. dm64 q0. cbn [app dec1].
  destruct (N.ltb_spec (0xF0 + q1) 0x80); [lia|]. destruct (N.ltb_spec (0xF0 + q1) 0xE0); [lia|].
  destruct (N.ltb_spec (0xF0 + q1) 0xF0); [lia|]. f_equal. f_equal. lia.
Qed.

Lemma utf8c_prefix c d r r' : scalar c -> scalar d -> utf8c c ++ r = utf8c d ++ r' -> c = d /\ r = r'.
Proof.
  intros Hc Hd E. pose proof (dec1_utf8c c r Hc) as H1. rewrite E, (dec1_utf8c d r' Hd) in H1.
  inversion H1; auto.
Qed.

Theorem utf8_inj s s' : Forall scalar s -> Forall scalar s' -> utf8 s = utf8 s' -> s = s'.
Proof.
  intros H; revert s'; induction H as [|c s Hc Hs IH]; intros s' H' E.
  - destruct H' as [|d s' Hd Hs']; [reflexivity|]. cbn in E. exfalso.
    unfold utf8c in E. destruct (d <? 128), (d <? 2048), (d <? 65536); discriminate.
  - destruct H' as [|d s' Hd Hs'].
    + cbn in E. exfalso. unfold utf8c in E. destruct (c <? 128), (c <? 2048), (c <? 65536); discriminate.
    + cbn [utf8 flat_map] in E. apply utf8c_prefix in E as [-> E]; auto. f_equal. apply IH; auto.
Qed.

(* separator encoding (what C05/C15 hash): injective on lists of strings *)
Definition enc (vals : list (list N)) : list N := flat_map (fun v => utf8 v ++ [SEP]) vals.

Lemma split_sep a b r r' : ~ In SEP a -> ~ In SEP b -> a ++ SEP :: r = b ++ SEP :: r' -> a = b /\ r = r'.
Proof.
  revert b; induction a as [|x a IH]; intros [|y b] Ha Hb E; cbn in *.
  - inversion E; auto.
  - inversion E; subst. tauto.
  - inversion E; subst. tauto.
  - inversion E; subst. destruct (IH b) as [-> ->]; auto.
Qed.

Theorem enc_inj vs vs' : Forall (Forall scalar) vs -> Forall (Forall scalar) vs' -> enc vs = enc vs' -> vs = vs'.
Proof.
  intros H; revert vs'; induction H as [|v vs Hv Hvs IH]; intros vs' H' E.
  - destruct H' as [|v' vs' Hv' Hvs']; [reflexivity|]. cbn in E. destruct (utf8 v'); discriminate.
  - destruct H' as [|v' vs' Hv' Hvs'].
    + cbn in E. destruct (utf8 v); discriminate.
    + cbn [enc flat_map] in E. rewrite <- !app_assoc in E. cbn [app] in E.
      apply split_sep in E as [E1 E2]; try (apply utf8_no_sep; auto).
      apply utf8_inj in E1; auto. subst. f_equal. apply IH; auto.
Qed.
Print Assumptions enc_inj.
