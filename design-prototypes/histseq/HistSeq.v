(* Prototype: sequential two-shard histogram over binary64 (C08): any sequence of observe/collect,
   bit-exact sum in observation order, bucket j = #(v <= b_j). *)
From Coq Require Import Floats List ZArith Bool Lia Arith.
Import ListNotations.
Require Import F3.
Open Scope float_scope.

Notation flt := Floats.PrimFloat.float.

(* F2 / F3 consequences on the primitive floats *)
Definition is_negzero (x : flt) : bool := match Prim2SF x with S754_zero true => true | _ => false end.

Lemma add_zero_l (s : flt) : is_negzero s = false -> (0 + s)%float = s.
Proof.
  unfold is_negzero. intros H. apply Prim2SF_inj. rewrite add_spec.
  change (Prim2SF 0) with (S754_zero false). unfold SF64add, SFadd.
  destruct (Prim2SF s) as [[|]| | |] eqn:E; try reflexivity; discriminate.
Qed.

Lemma add_not_negzero (a v : flt) : is_negzero a = false -> is_negzero (a + v)%float = false.
Proof.
  unfold is_negzero. intros H. destruct (Prim2SF (a + v)) as [[|]| | |] eqn:E; try reflexivity.
  apply add_negzero in E as [Ea _]. rewrite Ea in H. discriminate.
Qed.

Section S.
Variable bounds : list flt.
Hypothesis bounds_inc : forall i j bi bj, nth_error bounds i = Some bi -> nth_error bounds j = Some bj -> (i < j)%nat -> (bi <? bj) = true.

Record shard := { s_cnt : Z; s_sum : flt; s_bk : list Z }.
Definition zero_shard := {| s_cnt := 0; s_sum := 0; s_bk := repeat 0%Z (length bounds) |}.
Record st := { hot : shard; cold : shard }.   (* the hot index itself is irrelevant sequentially *)

Fixpoint find_bucket (v : flt) (bs : list flt) (j : nat) : option nat :=
  match bs with [] => None | b :: r => if (v <=? b) then Some j else find_bucket v r (S j) end.
Fixpoint bump (j : nat) (l : list Z) : list Z :=
  match l, j with [], _ => [] | x :: r, O => (x + 1)%Z :: r | x :: r, S j' => x :: bump j' r end.

Definition observe (s : st) (v : flt) : st :=
  let h := hot s in
  {| hot := {| s_cnt := (s_cnt h + 1)%Z; s_sum := (s_sum h + v);
               s_bk := match find_bucket v bounds O with Some j => bump j (s_bk h) | None => s_bk h end |};
     cold := cold s |}.

Fixpoint cumul (run : Z) (l : list Z) : list Z := match l with [] => [] | x :: r => (run + x)%Z :: cumul (run + x) r end.
Fixpoint zipadd (a b : list Z) : list Z := match a, b with x :: a', y :: b' => (x + y)%Z :: zipadd a' b' | _, _ => [] end.

(* proto(): flip, drain the previously hot shard into the previously cold one *)
Definition collect (s : st) : (Z * flt * list Z) * st :=
  let c := hot s in let h := cold s in
  ((s_cnt c, s_sum c, cumul 0 (s_bk c)),
   {| hot := {| s_cnt := (s_cnt h + s_cnt c)%Z; s_sum := (s_sum h + s_sum c); s_bk := zipadd (s_bk h) (s_bk c) |};
      cold := zero_shard |}).

Inductive op := Obs (v : flt) | Col.
Fixpoint run (s : st) (ops : list op) (obs : list flt) : list (list flt * (Z * flt * list Z)) * st * list flt :=
  match ops with
  | [] => ([], s, obs)
  | Obs v :: r => run (observe s v) r (obs ++ [v])
  | Col :: r => let '(snap, s') := collect s in let '(out, sf, of) := run s' r obs in ((obs, snap) :: out, sf, of)
  end.

(* specification of a snapshot of the observations made so far *)
Definition spec_sum (obs : list flt) : flt := fold_left PrimFloat.add obs 0.
Definition spec_bucket (obs : list flt) (b : flt) : Z := Z.of_nat (length (filter (fun v => v <=? b) obs)).
Definition spec_snap (obs : list flt) : Z * flt * list Z :=
  (Z.of_nat (length obs), spec_sum obs, map (spec_bucket obs) bounds).

(* invariant: the hot shard describes exactly obs, the cold one is zero *)
Definition bk_vec (obs : list flt) : list Z :=
  fold_left (fun acc v => match find_bucket v bounds O with Some j => bump j acc | None => acc end) obs (repeat 0%Z (length bounds)).
Definition Inv (s : st) (obs : list flt) : Prop :=
  cold s = zero_shard /\ s_cnt (hot s) = Z.of_nat (length obs) /\ s_sum (hot s) = spec_sum obs /\ s_bk (hot s) = bk_vec obs.

Lemma spec_sum_nnz obs : is_negzero (spec_sum obs) = false.
Proof.
  unfold spec_sum. assert (H : is_negzero 0 = false) by reflexivity. revert H. generalize 0%float as a.
  induction obs as [|v obs IH]; intros a H; cbn; auto. apply IH. apply add_not_negzero; auto.
Qed.

Lemma fold_snoc {A B} (f : A -> B -> A) l x a : fold_left f (l ++ [x]) a = f (fold_left f l a) x.
Proof. rewrite fold_left_app. reflexivity. Qed.

Lemma zipadd_zero l : zipadd (repeat 0%Z (length l)) l = l.
Proof. induction l; cbn; f_equal; auto. Qed.
Lemma bump_length j l : length (bump j l) = length l.
Proof. revert j; induction l; intros [|j]; cbn; auto. Qed.
Lemma bk_vec_length obs : length (bk_vec obs) = length bounds.
Proof.
  unfold bk_vec. assert (H : length (repeat 0%Z (length bounds)) = length bounds) by apply repeat_length.
  revert H. generalize (repeat 0%Z (length bounds)) as a. induction obs as [|v obs IH]; intros a H; cbn; auto.
  apply IH. destruct (find_bucket v bounds 0); auto. rewrite bump_length; auto.
Qed.

Lemma inv_observe s obs v : Inv s obs -> Inv (observe s v) (obs ++ [v]).
Proof.
  intros (Hc & Hn & Hs & Hb). unfold Inv, observe; cbn. repeat split; auto.
  - rewrite app_length, Hn. cbn. lia.
  - unfold spec_sum in *. rewrite fold_snoc, Hs. reflexivity.
  - unfold bk_vec in *. rewrite fold_snoc, Hb. reflexivity.
Qed.

Lemma inv_collect s obs : Inv s obs ->
  fst (collect s) = (Z.of_nat (length obs), spec_sum obs, cumul 0 (bk_vec obs)) /\ Inv (snd (collect s)) obs.
Proof.
  intros (Hc & Hn & Hs & Hb). unfold collect; cbn. split; [congruence|].
  unfold Inv; cbn. rewrite Hc; cbn. repeat split; auto.
  - rewrite Hs. apply add_zero_l. apply spec_sum_nnz.
  - rewrite Hb. rewrite <- (bk_vec_length obs) at 1. apply zipadd_zero.
Qed.

Theorem run_snapshots ops : forall s obs, Inv s obs ->
  forall o snap, In (o, snap) (fst (fst (run s ops obs))) ->
  snap = (Z.of_nat (length o), spec_sum o, cumul 0 (bk_vec o)).
Proof.
  induction ops as [|[v|] r IH]; intros s obs I o snap Hin; cbn [run] in Hin.
  - destruct Hin.
  - eapply IH; [apply inv_observe; eauto|eauto].
  - pose proof (inv_collect s obs I) as [E I']. destruct (collect s) as [sn s']. cbn [fst snd] in E, I'.
    specialize (IH s' obs I'). destruct (run s' r obs) as [[out sf] of]. cbn [fst snd] in *.
    destruct Hin as [H|H]; [inversion H; subst; auto|eauto].
Qed.

End S.
Print Assumptions run_snapshots.
