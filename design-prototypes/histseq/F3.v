From Coq Require Import Floats ZArith Reals Lia Lra Bool.
From Flocq Require Import Core BinarySingleNaN PrimFloat Plus_error.
Open Scope R_scope.
Local Instance Hprec : FLX.Prec_gt_0 prec := eq_refl _.
Local Instance Hmax : Prec_lt_emax prec emax := eq_refl _.

Lemma B2R_sign_neg m e H : B2R (B754_finite (prec:=prec) (emax:=emax) true m e H) < 0.
Proof. cbn. apply F2R_lt_0. cbn. lia. Qed.

Lemma Bplus_negzero (x y : binary_float prec emax) :
  Bplus mode_NE x y = B754_zero true -> x = B754_zero true /\ y = B754_zero true.
Proof.
  intros H.
  destruct x as [sx|sx| |sx mx ex Hx], y as [sy|sy| |sy my ey Hy].
  all: try (unfold Bplus in H; discriminate).
  - unfold Bplus in H. destruct sx, sy; cbn in H; try discriminate; auto.
  - unfold Bplus in H. destruct (eqb sx sy); discriminate.
  - pose proof (Bplus_correct prec emax Hprec Hmax mode_NE (B754_finite sx mx ex Hx) (B754_finite sy my ey Hy) eq_refl eq_refl) as C.
    rewrite H in C.
    destruct (Rlt_bool _ _) in C.
    + destruct C as (HR & _ & HS). cbn [B2R Bsign] in HR, HS.
      symmetry in HR.
      assert (E0 : F2R (beta:=radix2) {| Fnum := cond_Zopp sx (Z.pos mx); Fexp := ex |} + F2R (beta:=radix2) {| Fnum := cond_Zopp sy (Z.pos my); Fexp := ey |} = 0).
      { eapply (round_plus_eq_0 radix2 (SpecFloat.fexp prec emax) (round_mode mode_NE)); [ | | exact HR].
        - apply (generic_format_B2R prec emax (B754_finite sx mx ex Hx)).
        - apply (generic_format_B2R prec emax (B754_finite sy my ey Hy)). }
      rewrite E0, Rcompare_Eq in HS by reflexivity.
      symmetry in HS. apply andb_prop in HS as [-> ->].
      pose proof (B2R_sign_neg mx ex Hx) as N1. pose proof (B2R_sign_neg my ey Hy) as N2. cbn [B2R] in N1, N2. lra.
    + destruct C as (C & _). cbn [B2SF] in C. unfold binary_overflow in C. destruct (overflow_to_inf _ _); discriminate.
Qed.

Lemma add_negzero (x y : Floats.PrimFloat.float) :
  Prim2SF (x + y)%float = S754_zero true -> Prim2SF x = S754_zero true /\ Prim2SF y = S754_zero true.
Proof.
  intros H. rewrite <- !B2SF_Prim2B in *. rewrite add_equiv in H.
  destruct (Bplus mode_NE (Prim2B x) (Prim2B y)) as [s| | |] eqn:E; try discriminate.
  cbn in H. inversion H; subst. apply Bplus_negzero in E as [-> ->]. auto.
Qed.
Print Assumptions add_negzero.
