use prometheus::verif_sync::{self, Hook, Outcome, Point};
use prometheus::*;
use std::sync::{Arc, Condvar, Mutex};

// Scheduler: each worker thread has an index; `turn` says who may run; workers park in before().
struct Sched {
    st: Mutex<State>,
    cv: Condvar,
}
struct State {
    turn: Option<usize>,          // worker allowed to take one step
    waiting: Vec<bool>,           // worker i is parked at a sync point
    done: Vec<bool>,
    spurious: bool,
    log: Vec<String>,
}
struct WorkerHook { s: Arc<Sched>, me: usize }
impl Hook for WorkerHook {
    fn before(&self, _p: &Point) -> bool {
        let mut g = self.s.st.lock().unwrap();
        g.waiting[self.me] = true;
        self.s.cv.notify_all();
        while g.turn != Some(self.me) { g = self.s.cv.wait(g).unwrap(); }
        g.waiting[self.me] = false;
        g.spurious
    }
    fn after(&self, p: &Point, o: Outcome) {
        let mut g = self.s.st.lock().unwrap();
        g.log.push(format!("t{} {:?} -> {:?}", self.me, p, o));
        g.turn = None;
        self.s.cv.notify_all();
    }
}

fn main() {
    verif_sync::reset_ids();
    let c = Counter::new("c", "h").unwrap();
    let nthreads = 2;
    let s = Arc::new(Sched { st: Mutex::new(State { turn: None, waiting: vec![false; nthreads], done: vec![false; nthreads], spurious: false, log: vec![] }), cv: Condvar::new() });
    let mut hs = vec![];
    for i in 0..nthreads {
        let c = c.clone(); let s2 = s.clone();
        hs.push(std::thread::spawn(move || {
            verif_sync::install(Arc::new(WorkerHook { s: s2.clone(), me: i }));
            c.inc_by((i + 1) as f64);
            verif_sync::uninstall();
            let mut g = s2.st.lock().unwrap(); g.done[i] = true; s2.cv.notify_all();
        }));
    }
    // schedule: t0 load, t1 load, t1 cas(ok), t0 cas(fails), t0 load, t0 cas ok
    let schedule = [0usize, 1, 1, 0, 0, 0];
    for &t in &schedule {
        let mut g = s.st.lock().unwrap();
        while !(g.waiting[t] || g.done[t]) { g = s.cv.wait(g).unwrap(); }
        if g.done[t] { g.log.push(format!("t{} already done", t)); continue; }
        g.turn = Some(t);
        s.cv.notify_all();
        while g.turn.is_some() { g = s.cv.wait(g).unwrap(); }
    }
    // drain: run remaining threads to completion round-robin
    loop {
        let mut g = s.st.lock().unwrap();
        if g.done.iter().all(|d| *d) { break; }
        let t = (0..nthreads).find(|&i| g.waiting[i]);
        if let Some(t) = t { g.turn = Some(t); s.cv.notify_all(); while g.turn.is_some() { g = s.cv.wait(g).unwrap(); } }
        else { let _g = s.cv.wait_timeout(g, std::time::Duration::from_millis(1)).unwrap(); }
    }
    for h in hs { h.join().unwrap(); }
    for l in &s.st.lock().unwrap().log { println!("{}", l); }
    println!("final {}", c.get());
}
