(* Prototype: registry admission (C06) at the level of descriptor ids / dim hashes. *)
From Coq Require Import List NArith Bool Lia.
Import ListNotations.
Open Scope N_scope.

Record desc := { d_name : N (* stand-in for the name string *); d_id : N; d_dim : N }.
Inductive err := AlreadyReg | Msg.
Inductive res := Ok | Err (e : err).

Definition m64 : N := 0x10000000000000000.
Fixpoint memN (x : N) (l : list N) : bool := match l with [] => false | y :: t => (x =? y) || memN x t end.
Fixpoint lookup (k : N) (m : list (N * N)) : option N :=
  match m with [] => None | (k', v) :: t => if k =? k' then Some v else lookup k t end.

Record reg := { colls : list (N * list desc); ids : list N; dims : list (N * N) }.

(* the per-descriptor loop of RegistryCore::register; returns error or (seen ids, collector id, staged dims) *)
Fixpoint reg_loop (r : reg) (ds : list desc) (seen : list N) (cid : N) (dm : list (N * N))
  : err * list (N * N) + list N * N * list (N * N) :=
  match ds with
  | [] => inr (seen, cid, dm)
  | d :: t =>
      if memN (d_id d) (ids r) then inl (AlreadyReg, dm)
      else match lookup (d_name d) dm with
           | Some h => if negb (h =? d_dim d) then inl (Msg, dm)
                       else if memN (d_id d) seen then inl (Msg, (d_name d, d_dim d) :: dm)
                       else reg_loop r t (d_id d :: seen) ((cid + d_id d) mod m64) ((d_name d, d_dim d) :: dm)
           | None => if memN (d_id d) seen then inl (Msg, (d_name d, d_dim d) :: dm)
                     else reg_loop r t (d_id d :: seen) ((cid + d_id d) mod m64) ((d_name d, d_dim d) :: dm)
           end
  end.

(* current code: the dims written inside the loop survive a failure *)
Definition register_cur (r : reg) (c : list desc) : res * reg :=
  match reg_loop r c [] 0 (dims r) with
  | inl (e, dm) => (Err e, {| colls := colls r; ids := ids r; dims := dm |})
  | inr (seen, cid, dm) =>
      if memN cid (map fst (colls r)) then (Err AlreadyReg, {| colls := colls r; ids := ids r; dims := dm |})
      else (Ok, {| colls := (cid, c) :: colls r; ids := seen ++ ids r; dims := dm |})
  end.

(* repaired code: staged dims are committed only on success *)
Definition register_fix (r : reg) (c : list desc) : res * reg :=
  match reg_loop r c [] 0 (dims r) with
  | inl (e, _) => (Err e, r)
  | inr (seen, cid, dm) =>
      if memN cid (map fst (colls r)) then (Err AlreadyReg, r)
      else (Ok, {| colls := (cid, c) :: colls r; ids := seen ++ ids r; dims := dm |})
  end.

Theorem failed_is_noop r c e r' : register_fix r c = (Err e, r') -> r' = r.
Proof.
  unfold register_fix. destruct (reg_loop r c [] 0 (dims r)) as [[e' dm]|[[seen cid] dm]].
  - intros H; inversion H; reflexivity.
  - destruct (memN cid (map fst (colls r))); intros H; inversion H; reflexivity.
Qed.

(* the current code is refuted by the probe's scenario: "taken" registered; collector [fresh/helpA; taken] fails;
   then fresh/helpB is refused although nothing named fresh was ever registered *)
Definition taken := {| d_name := 1; d_id := 11; d_dim := 101 |}.
Definition freshA := {| d_name := 2; d_id := 22; d_dim := 201 |}.
Definition freshB := {| d_name := 2; d_id := 22; d_dim := 202 |}.
Definition empty := {| colls := []; ids := []; dims := [] |}.

Example cur_refuted :
  let r1 := snd (register_cur empty [taken]) in
  let '(x, r2) := register_cur r1 [freshA; taken] in
  x = Err AlreadyReg /\ fst (register_cur r2 [freshB]) = Err Msg /\ fst (register_cur r1 [freshB]) = Ok.
Proof. vm_compute. repeat split. Qed.

Example fix_ok :
  let r1 := snd (register_fix empty [taken]) in
  let '(x, r2) := register_fix r1 [freshA; taken] in
  x = Err AlreadyReg /\ fst (register_fix r2 [freshB]) = Ok.
Proof. vm_compute. repeat split. Qed.
