#!/bin/sh
# Re-check the Coq prototypes referenced by DESIGN.md section 12 in a scratch copy (nothing is written here).
set -e
here=$(cd "$(dirname "$0")" && pwd)
tmp=$(mktemp -d)
trap 'rm -rf "$tmp"' EXIT
cp -r "$here"/hist "$here"/lin "$here"/float "$here"/text "$here"/base "$here"/reg "$here"/tracevalid "$here"/histseq "$tmp"/
(cd "$tmp/hist" && for f in Hist HistLemmas HistInv HistProof; do timeout 600 coqc -Q . "" $f.v; done) | tail -2
(cd "$tmp/lin" && timeout 600 coqc Cas.v) | tail -1
(cd "$tmp/float" && timeout 600 coqc F1_trans.v >/dev/null && timeout 600 coqc F3_negzero.v >/dev/null && timeout 600 coqc bits.v >/dev/null && timeout 600 coqc F4_mono.v >/dev/null && echo float ok)
(cd "$tmp/text" && timeout 600 coqc TextProto.v) | tail -1
(cd "$tmp/base" && timeout 600 coqc Utf8.v) | tail -1
(cd "$tmp/reg" && timeout 600 coqc Reg.v && echo reg ok)
(cd "$tmp/tracevalid" && timeout 600 coqc HExec.v && echo tracevalid model ok)
(cd "$tmp/histseq" && timeout 600 coqc -Q . "" F3.v >/dev/null && timeout 600 coqc -Q . "" HistSeq.v >/dev/null && echo histseq ok)
! grep -rn 'Admitted\|admit\.\|Axiom \|Parameter \|Conjecture ' "$here" --include=*.v
echo "all prototypes re-checked"
