use quote::ToTokens;
use syn::visit::{self, Visit};
struct V { fn_stack: Vec<String>, out: Vec<String> }
impl<'ast> Visit<'ast> for V {
    fn visit_impl_item_fn(&mut self, i: &'ast syn::ImplItemFn) {
        self.fn_stack.push(i.sig.ident.to_string()); visit::visit_impl_item_fn(self, i); self.fn_stack.pop();
    }
    fn visit_item_impl(&mut self, i: &'ast syn::ItemImpl) {
        let ty = i.self_ty.to_token_stream().to_string().replace(' ', "");
        let tr = i.trait_.as_ref().map(|t| t.1.to_token_stream().to_string().replace(' ', ""));
        self.fn_stack.push(format!("{}{}", tr.map(|t| t + " for ").unwrap_or_default(), ty)); visit::visit_item_impl(self, i); self.fn_stack.pop();
    }
    fn visit_expr_method_call(&mut self, m: &'ast syn::ExprMethodCall) {
        let ords: Vec<String> = m.args.iter().filter_map(|a| { let s = a.to_token_stream().to_string().replace(' ', ""); if s.starts_with("Ordering::") { Some(s[10..].to_string()) } else if s == "ordering" { Some("<param>".into()) } else { None } }).collect();
        if !ords.is_empty() {
            let recv = m.receiver.to_token_stream().to_string().replace(' ', "");
            self.out.push(format!("{} :: {}.{}({})", self.fn_stack.join("::"), recv, m.method, ords.join(",")));
        }
        visit::visit_expr_method_call(self, m);
    }
}
fn main() {
    for f in std::env::args().skip(1) {
        let src = std::fs::read_to_string(&f).unwrap();
        let file = syn::parse_file(&src).unwrap();
        let mut v = V { fn_stack: vec![], out: vec![] };
        v.visit_file(&file);
        println!("== {}", f);
        for l in v.out { println!("{}", l); }
        for item in &file.items { if let syn::Item::Macro(m) = item { if m.mac.path.is_ident("macro_rules") { 
            let name = m.ident.as_ref().map(|i| i.to_string()).unwrap_or_default();
            let toks: Vec<proc_macro2::TokenTree> = m.mac.tokens.clone().into_iter().collect();
            let mut arms = vec![]; let mut i = 0;
            while i + 3 < toks.len() + 1 { if let proc_macro2::TokenTree::Group(g) = &toks[i] { arms.push(g.stream().to_string()); } i += 5; }
            println!("macro {} arms {:?}", name, arms);
        } } }
    }
}
