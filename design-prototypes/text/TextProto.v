(* Prototype: sample-line rendering and independent parsing, round trip (C04 core). *)
From Coq Require Import List NArith Bool Lia Arith.
Import ListNotations.
Open Scope N_scope.

Definition LF := 10. Definition BS := 92. Definition DQ := 34. Definition SP := 32.
Definition LB := 123. Definition RB := 125. Definition EQc := 61. Definition COMMA := 44. Definition LN := 110.

(* ---------- encoder side (mirrors escape_string / label_pairs_to_text / write_sample) ---------- *)
Definition esc (q : bool) (c : N) : list N :=
  if c =? BS then [BS; BS] else if c =? LF then [BS; LN] else if q && (c =? DQ) then [BS; DQ] else [c].
Definition escape (q : bool) (s : list N) : list N := flat_map (esc q) s.

Record label := { l_name : list N; l_value : list N }.
Definition render_label (l : label) : list N := l_name l ++ [EQc; DQ] ++ escape true (l_value l) ++ [DQ].
Fixpoint render_tail (ls : list label) : list N :=
  match ls with [] => [RB] | l :: r => COMMA :: render_label l ++ render_tail r end.
Definition render_labels (ls : list label) : list N :=
  match ls with [] => [] | l :: r => LB :: render_label l ++ render_tail r end.
Definition render_sample (name : list N) (ls : list label) (v : list N) (ts : option (list N)) : list N :=
  name ++ render_labels ls ++ [SP] ++ v ++ match ts with None => [] | Some t => SP :: t end.

(* ---------- parser side (written from the format description) ---------- *)
Fixpoint span (p : N -> bool) (l : list N) : list N * list N :=
  match l with
  | [] => ([], [])
  | c :: r => if p c then let '(a, b) := span p r in (c :: a, b) else ([], l)
  end.

(* read an escaped label value up to the closing quote *)
Fixpoint unq (l : list N) : option (list N * list N) :=
  match l with
  | [] => None
  | c :: r =>
      if c =? DQ then Some ([], r)
      else if c =? BS then
        match r with
        | [] => None
        | d :: r' =>
            let k := if d =? BS then Some BS else if d =? LN then Some LF else if d =? DQ then Some DQ else None in
            match k with
            | None => None
            | Some x => match unq r' with Some (v, rest) => Some (x :: v, rest) | None => None end
            end
        end
      else match unq r with Some (v, rest) => Some (c :: v, rest) | None => None end
  end.

Definition is_alpha (c : N) := ((65 <=? c) && (c <=? 90)) || ((97 <=? c) && (c <=? 122)).
Definition is_digit (c : N) := (48 <=? c) && (c <=? 57).
Definition lname_char (c : N) := is_alpha c || is_digit c || (c =? 95).
Definition mname_char (c : N) := lname_char c || (c =? 58).
Definition tok_char (c : N) := negb (c =? SP) && negb (c =? LF).

Fixpoint parse_tail (fuel : nat) (l : list N) : option (list label * list N) :=
  match fuel with
  | O => None
  | S f =>
      match l with
      | c :: r =>
          if c =? RB then Some ([], r)
          else if c =? COMMA then
            let '(nm, r1) := span lname_char r in
            match r1 with
            | e :: q :: r2 =>
                if (e =? EQc) && (q =? DQ) then
                  match unq r2 with
                  | Some (v, r3) =>
                      match parse_tail f r3 with
                      | Some (ls, r4) => Some ({| l_name := nm; l_value := v |} :: ls, r4)
                      | None => None
                      end
                  | None => None
                  end
                else None
            | _ => None
            end
          else None
      | [] => None
      end
  end.

(* a sample line (without its LF): name, labels, value token, optional timestamp token *)
Definition parse_sample (l : list N) : option (list N * list label * list N * option (list N)) :=
  let '(nm, r) := span mname_char l in
  let labs :=
    match r with
    | c :: r' => if c =? LB then
                   (* first label has no leading comma: reuse parse_tail by pretending one *)
                   match parse_tail (S (length r')) (COMMA :: r') with Some (ls, r'') => Some (ls, r'') | None => None end
                 else Some ([], r)
    | [] => None
    end in
  match labs with
  | Some (ls, c :: r1) =>
      if c =? SP then
        let '(v, r2) := span tok_char r1 in
        match r2 with
        | [] => Some (nm, ls, v, None)
        | c2 :: r3 => if c2 =? SP then let '(t, r4) := span tok_char r3 in
                                      match r4 with [] => Some (nm, ls, v, Some t) | _ => None end
                      else None
        end
      else None
  | _ => None
  end.

(* ---------- round trip ---------- *)
Lemma span_app p a c r : forallb p a = true -> p c = false -> span p (a ++ c :: r) = (a, c :: r).
Proof. induction a as [|x a IH]; cbn; intros H Hc; [now rewrite Hc|]. apply andb_prop in H as [Hx Ha]. rewrite Hx, IH; auto. Qed.
Lemma span_all p a : forallb p a = true -> span p a = (a, []).
Proof. induction a as [|x a IH]; cbn; intros H; auto. apply andb_prop in H as [Hx Ha]. rewrite Hx, IH; auto. Qed.

Lemma unq_escape v r : unq (escape true v ++ DQ :: r) = Some (v, r).
Proof.
  induction v as [|c v IH]; [reflexivity|].
  change (escape true (c :: v)) with (esc true c ++ escape true v). unfold esc.
  destruct (c =? BS) eqn:E1.
  { apply N.eqb_eq in E1; subst.
    change (([BS; BS] ++ escape true v) ++ DQ :: r) with (BS :: BS :: (escape true v ++ DQ :: r)).
    cbn [unq]. change (BS =? DQ) with false. change (BS =? BS) with true. cbn iota. rewrite IH. reflexivity. }
  destruct (c =? LF) eqn:E2.
  { apply N.eqb_eq in E2; subst.
    change (([BS; LN] ++ escape true v) ++ DQ :: r) with (BS :: LN :: (escape true v ++ DQ :: r)).
    cbn [unq]. change (BS =? DQ) with false. change (BS =? BS) with true. change (LN =? BS) with false. change (LN =? LN) with true.
    cbn iota. rewrite IH. reflexivity. }
  cbn [andb]. destruct (c =? DQ) eqn:E3.
  { apply N.eqb_eq in E3; subst.
    change (([BS; DQ] ++ escape true v) ++ DQ :: r) with (BS :: DQ :: (escape true v ++ DQ :: r)).
    cbn [unq]. change (BS =? DQ) with false. change (BS =? BS) with true. change (DQ =? BS) with false. change (DQ =? LN) with false.
    change (DQ =? DQ) with true. cbn iota. rewrite IH. reflexivity. }
  change (([c] ++ escape true v) ++ DQ :: r) with (c :: (escape true v ++ DQ :: r)).
  cbn [unq]. rewrite E3, E1, IH. reflexivity.
Qed.

Definition wf_label (l : label) : Prop := forallb lname_char (l_name l) = true.

Lemma parse_tail_render ls : forall fuel rest, Forall wf_label ls -> (length ls < fuel)%nat ->
  parse_tail fuel (render_tail ls ++ rest) = Some (ls, rest).
Proof.
  induction ls as [|l ls IH]; intros fuel rest Hwf Hf; destruct fuel as [|f]; try (cbn in Hf; lia).
  - reflexivity.
  - inversion Hwf; subst. cbn [render_tail app parse_tail]. change (COMMA =? RB) with false. change (COMMA =? COMMA) with true. cbn [andb].
    unfold render_label. rewrite <- ?app_assoc. cbn [app].
    rewrite span_app by (auto; reflexivity). change (EQc =? EQc) with true. change (DQ =? DQ) with true. cbn [andb].
    rewrite unq_escape. rewrite IH by (auto; cbn in Hf; lia). destruct l; reflexivity.
Qed.

Definition wf_sample (name : list N) (ls : list label) (v : list N) (ts : option (list N)) : Prop :=
  forallb mname_char name = true /\ Forall wf_label ls /\ forallb tok_char v = true /\
  match ts with None => True | Some t => forallb tok_char t = true end.

Lemma tail_len ls : (length ls < length (render_tail ls))%nat.
Proof. induction ls; cbn; [lia|]. rewrite app_length. lia. Qed.

Theorem sample_roundtrip name ls v ts :
  wf_sample name ls v ts -> parse_sample (render_sample name ls v ts) = Some (name, ls, v, ts).
Proof.
  intros (Hn & Hl & Hv & Ht). unfold parse_sample, render_sample.
  set (tsx := match ts with Some t => SP :: t | None => [] end).
  assert (Htail : forall r1, r1 = v ++ tsx ->
     (let '(v0, r2) := span tok_char r1 in
      match r2 with
      | [] => Some (name, ls, v0, None)
      | c2 :: r3 => if c2 =? SP then let '(t, r4) := span tok_char r3 in
                                    match r4 with [] => Some (name, ls, v0, Some t) | _ :: _ => None end
                    else None
      end) = Some (name, ls, v, ts)).
  { intros r1 ->. unfold tsx. destruct ts as [t|].
    - rewrite span_app by (auto; reflexivity). change (SP =? SP) with true. cbn iota. rewrite span_all by auto. reflexivity.
    - rewrite app_nil_r, span_all by auto. reflexivity. }
  destruct ls as [|l ls].
  - cbn [render_labels app]. rewrite span_app by (auto; reflexivity). change (SP =? LB) with false. cbn iota.
    change (SP =? SP) with true. cbn iota. apply Htail. reflexivity.
  - cbn [render_labels]. cbn [app]. rewrite span_app by (auto; reflexivity). change (LB =? LB) with true. cbn iota.
    replace (COMMA :: (render_label l ++ render_tail ls) ++ SP :: v ++ tsx)
      with (render_tail (l :: ls) ++ (SP :: v ++ tsx)) by (cbn [render_tail app]; rewrite <- app_assoc; reflexivity).
    rewrite parse_tail_render; auto.
    + change (SP =? SP) with true. cbn iota. apply Htail. reflexivity.
    + pose proof (tail_len ls). rewrite !app_length. cbn [length]. lia.
Qed.
Print Assumptions sample_roundtrip.
