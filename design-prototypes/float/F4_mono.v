(* F4: for s >= 0 and d >= 0 (neither NaN), s <= s + d and 0 <= s + d, in binary64. *)
From Coq Require Import Floats ZArith Reals Lia Lra Bool.
From Flocq Require Import Core BinarySingleNaN PrimFloat.
Open Scope R_scope.
Local Instance Hprec : FLX.Prec_gt_0 prec := eq_refl _.
Local Instance Hmax : Prec_lt_emax prec emax := eq_refl _.
Notation bf := (binary_float prec emax).
Notation bzero := (B754_zero (prec:=prec) (emax:=emax) false).

Lemma Bleb_zero_finite (x : bf) : is_finite x = true -> Bleb bzero x = true -> 0 <= B2R x.
Proof.
  intros F H. rewrite (Bleb_correct prec emax bzero x eq_refl F) in H. cbn [B2R] in H.
  destruct (Rle_bool_spec 0 (B2R x)); [assumption|discriminate].
Qed.

Lemma Bleb_zero_cases (x : bf) : Bleb bzero x = true ->
  (is_finite x = true /\ 0 <= B2R x) \/ x = B754_infinity false.
Proof.
  destruct x as [s|[|]| |s m e H] eqn:E; intros L.
  - left. split; [reflexivity|cbn; lra].
  - discriminate.
  - right. reflexivity.
  - discriminate.
  - left. split; [reflexivity|]. rewrite <- E in *. apply Bleb_zero_finite; subst; auto.
Qed.

Lemma Bplus_mono (s d : bf) : Bleb bzero s = true -> Bleb bzero d = true ->
  Bleb s (Bplus mode_NE s d) = true /\ Bleb bzero (Bplus mode_NE s d) = true.
Proof.
  intros Hs Hd.
  destruct (Bleb_zero_cases s Hs) as [[Fs Rs]| ->]; destruct (Bleb_zero_cases d Hd) as [[Fd Rd]| ->].
  - (* finite + finite *)
    pose proof (Bplus_correct prec emax Hprec Hmax mode_NE s d Fs Fd) as C.
    set (x := Rabs (round radix2 (SpecFloat.fexp prec emax) (round_mode mode_NE) (B2R s + B2R d))) in *.
    destruct (Rlt_bool_spec x (bpow radix2 emax)) as [Hlt|Hge].
    + destruct C as (HR & HF & _).
      assert (Hge : B2R s <= B2R (Bplus mode_NE s d)).
      { rewrite HR. rewrite <- (round_generic radix2 (SpecFloat.fexp prec emax) (round_mode mode_NE) (B2R s)) at 1
          by apply generic_format_B2R.
        apply round_le; [apply (fexp_correct prec emax Hprec) | apply valid_rnd_round_mode | lra]. }
      split.
      * rewrite (Bleb_correct prec emax s _ Fs HF). apply Rle_bool_true. exact Hge.
      * rewrite (Bleb_correct prec emax bzero _ eq_refl HF). apply Rle_bool_true. cbn [B2R]. lra.
    + destruct C as (C & Hsign).
      assert (Hz : forall y : bf, is_finite y = true -> 0 <= B2R y -> Bsign y = true -> B2R y = 0).
      { intros [sy|sy| |[|] my ey Hy] Fy Ry Sy; try discriminate; try reflexivity.
        exfalso. cbn in Ry. pose proof (F2R_lt_0 radix2 {| Fnum := Z.neg my; Fexp := ey |}) as N. cbn in N.
        assert (Z.neg my < 0)%Z by lia. specialize (N H). lra. }
      assert (Hsf : Bsign s = false).
      { destruct (Bsign s) eqn:Es; [|reflexivity]. exfalso.
        pose proof (Hz s Fs Rs Es) as Z1. pose proof (Hz d Fd Rd (eq_sym Hsign)) as Z2.
        unfold x in Hge. rewrite Z1, Z2, Rplus_0_r, round_0, Rabs_R0 in Hge by apply valid_rnd_round_mode.
        pose proof (bpow_gt_0 radix2 emax). lra. }
      unfold binary_overflow in C. rewrite Hsf in C. cbn in C.
      destruct (Bplus mode_NE s d) as [| [|] | |]; try discriminate. split; [|reflexivity].
      destruct s as [| | |]; try discriminate; reflexivity.
  - (* finite + inf *) destruct s as [ss|ss| |ss ms es Hs']; try discriminate; cbn; auto.
  - (* inf + finite *) destruct d as [sd|sd| |sd md ed Hd']; try discriminate; cbn; auto.
  - cbn. auto.
Qed.

Theorem add_mono (s d : Floats.PrimFloat.float) :
  (0 <=? s)%float = true -> (0 <=? d)%float = true ->
  (s <=? s + d)%float = true /\ (0 <=? s + d)%float = true.
Proof.
  rewrite !leb_equiv, add_equiv. change (Prim2B 0%float) with bzero. apply Bplus_mono.
Qed.
Print Assumptions add_mono.
