From Coq Require Import Floats ZArith NArith List Lia Bool.
Import ListNotations.
Open Scope Z_scope.

(* bits <-> spec_float for binary64 *)
Definition bits2sf (b : Z) : spec_float :=
  let s := Z.testbit b 63 in
  let e := Z.land (Z.shiftr b 52) 2047 in
  let m := Z.land b (Z.ones 52) in
  if e =? 2047 then (if m =? 0 then S754_infinity s else S754_nan)
  else if e =? 0 then (match m with Zpos p => S754_finite s p (-1074) | _ => S754_zero s end)
  else match Z.lor m (Z.shiftl 1 52) with Zpos p => S754_finite s p (e - 1075) | _ => S754_nan end.
Definition sf2bits (x : spec_float) : Z :=
  let sb (s : bool) := if s then Z.shiftl 1 63 else 0 in
  match x with
  | S754_zero s => sb s
  | S754_infinity s => sb s + Z.shiftl 2047 52
  | S754_nan => Z.shiftl 4095 51   (* canonical quiet NaN 0x7ff8... *)
  | S754_finite s m e =>
      let m := Zpos m in
      if m <? Z.shiftl 1 52 then sb s + m   (* subnormal: e = -1074 *)
      else sb s + Z.shiftl (e + 1075) 52 + (m - Z.shiftl 1 52)
  end.
Definition bits2f (b : Z) : float := SF2Prim (bits2sf b).
Definition f2bits (x : float) : Z := sf2bits (Prim2SF x).

Eval vm_compute in map (fun b => f2bits (bits2f b)) [0x3ff0000000000000; 0x8000000000000000; 0x7ff0000000000000; 0x0000000000000001; 0x3fb999999999999a; 0x7fefffffffffffff; 0x7ff8000000000001].
Eval vm_compute in f2bits (bits2f 0x3fb999999999999a + bits2f 0x3fc999999999999a)%float.  (* 0.1+0.2 = 0x3fd3333333333334 *)
(* compare inside Coq, print only failing indices *)
Definition cases : list (Z * Z * Z) := [(0x3fb999999999999a, 0x3fc999999999999a, 0x3fd3333333333334); (0x3ff0000000000000, 0x3ff0000000000000, 0x4000000000000000); (1,1,3)].
Definition check (c : Z*Z*Z) := let '(a,b,r) := c in f2bits (bits2f a + bits2f b)%float =? r.
Fixpoint failing {A} (f : A -> bool) (i : nat) (l : list A) : list nat := match l with [] => [] | x :: t => if f x then failing f (S i) t else i :: failing f (S i) t end.
Set Printing Width 100000.
Eval vm_compute in failing check 0 cases.
