From Coq Require Import Floats ZArith NArith List Lia Bool.
Import ListNotations.
Open Scope float_scope.

Lemma SF_leb_ltb_trans (v a b : spec_float) :
  SFleb v a = true -> SFltb a b = true -> SFleb v b = true.
Proof.
  unfold SFleb, SFltb.
  destruct v as [sv|sv| |sv mv ev], a as [sa|sa| |sa ma ea], b as [sb|sb| |sb mb eb]; cbn;
    try discriminate; try reflexivity;
    repeat match goal with
    | s : bool |- _ => destruct s
    end; cbn; try discriminate; try reflexivity.
  all: repeat match goal with
       | |- context [Z.compare ?x ?y] => destruct (Z.compare_spec x y); subst; cbn
       | H : context [Z.compare ?x ?y] |- _ => destruct (Z.compare_spec x y); subst; cbn in H
       end; try discriminate; try reflexivity; try lia.

  all: repeat match goal with
       | |- context [Pos.compare_cont Eq ?x ?y] => change (Pos.compare_cont Eq x y) with (Pos.compare x y); destruct (Pos.compare_spec x y); subst; cbn
       | H : context [Pos.compare_cont Eq ?x ?y] |- _ => change (Pos.compare_cont Eq x y) with (Pos.compare x y) in H; destruct (Pos.compare_spec x y); subst; cbn in H
       end; try discriminate; try reflexivity; try lia.
Qed.

Lemma leb_ltb_trans (v a b : float) : (v <=? a) = true -> (a <? b) = true -> (v <=? b) = true.
Proof. rewrite !leb_spec, ltb_spec. apply SF_leb_ltb_trans. Qed.
Print Assumptions leb_ltb_trans.
