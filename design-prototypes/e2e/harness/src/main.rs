use prometheus::core::Desc;
use std::collections::HashMap;
use std::io::{self, BufRead, Write};
fn unhex(s: &str) -> String {
    if s == "-" { return String::new(); }
    let b: Vec<u8> = (0..s.len() / 2).map(|i| u8::from_str_radix(&s[2 * i..2 * i + 2], 16).unwrap()).collect();
    String::from_utf8(b).unwrap()
}
fn main() {
    let stdin = io::stdin(); let out = io::stdout(); let mut out = out.lock();
    for line in stdin.lock().lines() {
        let line = line.unwrap(); let t: Vec<&str> = line.split(' ').collect();
        // desc name help nv v.. nc k v ..
        let name = unhex(t[1]); let help = unhex(t[2]);
        let nv: usize = t[3].parse().unwrap();
        let vars: Vec<String> = (0..nv).map(|i| unhex(t[4 + i])).collect();
        let nc: usize = t[4 + nv].parse().unwrap();
        let mut consts = HashMap::new();
        for i in 0..nc { consts.insert(unhex(t[5 + nv + 2 * i]), unhex(t[6 + nv + 2 * i])); }
        let r = std::panic::catch_unwind(|| Desc::new(name, help, vars, consts));
        match r { Ok(Ok(d)) => writeln!(out, "ok {} {}", d.id, d.dim_hash).unwrap(), Ok(Err(_)) => writeln!(out, "err").unwrap(), Err(_) => writeln!(out, "panic").unwrap() }
    }
}
