import random, subprocess, sys, time, os
seed=int(sys.argv[1]) if len(sys.argv)>1 else 1
N=int(sys.argv[2]) if len(sys.argv)>2 else 1000
rnd=random.Random(seed)
pool_chars=list("ab_:9Z-")+[" ","é","Ａ","٣","$"]
def rstr(maxlen=4, valid_bias=0.7):
    if rnd.random()<valid_bias:
        return rnd.choice("abc_")+"".join(rnd.choice("ab_1") for _ in range(rnd.randint(0,maxlen-1)))
    return "".join(rnd.choice(pool_chars) for _ in range(rnd.randint(0,maxlen)))
def hexs(s): return s.encode().hex() if s else "-"
cases=[]
for i in range(N):
    name=rstr(5); help_=rstr(6,0.5)
    if rnd.random()<0.9 and not help_: help_="h"
    vars_=[rstr(3,0.9) for _ in range(rnd.randint(0,3))]
    consts={}
    for _ in range(rnd.randint(0,3)): consts[rstr(3,0.9)]=rstr(3,0.3)
    cases.append((name,help_,vars_,list(consts.items())))
inp="\n".join("desc %s %s %d %s %d %s"%(hexs(n),hexs(h),len(v)," ".join(map(hexs,v)),len(c)," ".join(hexs(k)+" "+hexs(x) for k,x in c)) for n,h,v,c in cases).replace("  "," ")
# careful: empty joins produce double spaces; normalise
inp="\n".join(" ".join(l.split()) for l in inp.split("\n"))+"\n"
t0=time.time()
out=subprocess.run([os.environ.get("PVE2E_BIN","./target/release/pve2e")],input=inp,capture_output=True,text=True).stdout.split("\n")
t1=time.time()
def cl(s): return "["+";".join(str(ord(ch)) for ch in s)+"]"
def cll(l): return "["+";".join(cl(s) for s in l)+"]"
SH=8
per=(N+SH-1)//SH
procs=[]
for k in range(SH):
    lines=["Require Import E2E.Desc.","From Coq Require Import List NArith.","Import ListNotations.","Open Scope N_scope.","Definition cases : list (list N * list N * list (list N) * list (list N * list N) * res) := ["]
    items=[]
    for i in range(k*per,min(N,(k+1)*per)):
        n,h,v,c=cases[i]; o=out[i].split()
        r="Err" if o[0]=="err" else ("Ok %s %s"%(o[1],o[2]) if o[0]=="ok" else "Err (* PANIC *)")
        items.append("(%s,%s,%s,[%s],%s)"%(cl(n),cl(h),cll(v),";".join("(%s,%s)"%(cl(a),cl(b)) for a,b in c),r))
    lines.append(";\n".join(items)+"].")
    lines.append("Definition chk (c : list N * list N * list (list N) * list (list N * list N) * res) := let '(n,h,v,cs,r) := c in res_eqb (desc_new n h v cs) r.")
    lines.append("Set Printing Width 1000000.")
    lines.append("Eval vm_compute in (failing chk %d cases)."%(k*per))
    open("coq/cases_%d.v"%k,"w").write("\n".join(lines)+"\n")
    procs.append(subprocess.Popen(["coqc","-noglob","-Q","coq","E2E","coq/cases_%d.v"%k],stdout=subprocess.PIPE,stderr=subprocess.STDOUT,text=True))
fails=[]
for p in procs:
    o=p.communicate()[0]
    for l in o.split("\n"):
        if l.strip().startswith("= "): fails.append(l.strip())
    if p.returncode!=0: print("COQ ERROR",o[:500])
t2=time.time()
nerr=sum(1 for o in out if o.startswith("err")); nok=sum(1 for o in out if o.startswith("ok"))
print("cases",N,"ok",nok,"err",nerr,"harness %.2fs coq %.2fs"%(t1-t0,t2-t1))
print("failing:",fails)
for f in fails:
    import re
    for idx in re.findall(r"\d+",f):
        i=int(idx); print(i,cases[i],out[i])
