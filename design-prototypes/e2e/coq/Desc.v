From Coq Require Import List NArith ZArith Bool Lia.
Import ListNotations.
Open Scope N_scope.

(* UTF-8 encoding of a code point *)
Definition utf8c (c : N) : list N :=
  if c <? 0x80 then [c]
  else if c <? 0x800 then [0xC0 + c / 64; 0x80 + c mod 64]
  else if c <? 0x10000 then [0xE0 + c / 4096; 0x80 + (c / 64) mod 64; 0x80 + c mod 64]
  else [0xF0 + c / 262144; 0x80 + (c / 4096) mod 64; 0x80 + (c / 64) mod 64; 0x80 + c mod 64].
Definition utf8 (s : list N) : list N := flat_map utf8c s.

Definition fnv_off : N := 0xcbf29ce484222325.
Definition fnv_prime : N := 0x100000001b3.
Definition m64 : N := 0x10000000000000000.
Definition fnv_step (h b : N) : N := (N.lxor h b * fnv_prime) mod m64.
Definition fnv (h : N) (bs : list N) : N := fold_left fnv_step bs h.

Definition is_alpha (c : N) := ((0x41 <=? c) && (c <=? 0x5A)) || ((0x61 <=? c) && (c <=? 0x7A)).
Definition is_digit (c : N) := (0x30 <=? c) && (c <=? 0x39).
Definition cs_nocolon (c : N) := is_alpha c || (c =? 0x5F).
Definition cs_colon (c : N) := cs_nocolon c || (c =? 0x3A).
Definition valid_ident (cs : N -> bool) (s : list N) : bool :=
  match s with [] => false | c :: r => cs c && forallb (fun x => cs x || is_digit x) r end.
Definition valid_metric_name := valid_ident cs_colon.
Definition valid_label_name := valid_ident cs_nocolon.

(* byte-lexicographic comparison of strings (Rust String Ord = byte order = code point order) *)
Fixpoint str_leb (a b : list N) : bool :=
  match a, b with
  | [], _ => true
  | _ :: _, [] => false
  | x :: a', y :: b' => if x <? y then true else if y <? x then false else str_leb a' b'
  end.
Fixpoint str_eqb (a b : list N) : bool :=
  match a, b with [], [] => true | x :: a', y :: b' => (x =? y) && str_eqb a' b' | _, _ => false end.
Fixpoint insert_str (x : list N) (l : list (list N)) : list (list N) :=
  match l with [] => [x] | y :: t => if str_leb x y then x :: l else y :: insert_str x t end.
Definition sort_str (l : list (list N)) := fold_right insert_str [] l.
Fixpoint mem_str (x : list N) (l : list (list N)) : bool :=
  match l with [] => false | y :: t => str_eqb x y || mem_str x t end.
Fixpoint lookup (k : list N) (m : list (list N * list N)) : list N :=
  match m with [] => [] | (k', v) :: t => if str_eqb k k' then v else lookup k t end.

Inductive res := Err | Ok (id dim : N).

(* Desc::new as in src/desc.rs (current tree): consts given in arbitrary (HashMap) order, keys distinct *)
Definition desc_new (name help : list N) (vars : list (list N)) (consts : list (list N * list N)) : res :=
  if match help with [] => true | _ => false end then Err else
  if negb (valid_metric_name name) then Err else
  if negb (forallb (fun kv => valid_label_name (fst kv)) consts) then Err else
  let cnames := sort_str (map fst consts) in
  let fix addvars (vs : list (list N)) (set : list (list N)) : option (list (list N)) :=
      match vs with
      | [] => Some set
      | v :: r => if negb (valid_label_name v) then None
                  else if mem_str (0x24 :: v) set then None
                  else addvars r (insert_str (0x24 :: v) set)
      end in
  match addvars vars cnames with
  | None => Err
  | Some names =>
      let sep := 0xFF in
      let vals := name :: map (fun k => lookup k consts) cnames in
      let id := fold_left (fun h v => fnv_step (fnv h (utf8 v)) sep) vals fnv_off in
      let dim := fold_left (fun h v => fnv_step (fnv h (utf8 v)) sep) (help :: names) fnv_off in
      Ok id dim
  end.

Definition res_eqb (a b : res) : bool :=
  match a, b with Err, Err => true | Ok i d, Ok i' d' => (i =? i') && (d =? d') | _, _ => false end.
Fixpoint failing {A} (f : A -> bool) (i : N) (l : list A) : list N :=
  match l with [] => [] | x :: t => if f x then failing f (i + 1) t else i :: failing f (i + 1) t end.
