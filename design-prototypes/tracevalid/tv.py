import subprocess, sys, struct
progs, sched = sys.argv[1], sys.argv[2]
mutate = len(sys.argv) > 3
out = subprocess.run(["/root/scratch/target/debug/hharn", progs, sched], capture_output=True, text=True).stdout.strip().split("\n")
def f2z(bits):
    x = struct.unpack('<d', struct.pack('<Q', int(bits)))[0]
    assert x == int(x), x
    return int(x)
def z(n): return "(%d)" % n
K = {"fetch_add": "KFetchAdd", "load": "KLoad", "cas_weak": "KCasWeak", "swap": "KSwap"}
sum_cells = {4, 8}   # for B=2: shard sums hold f64 bits
evs = []
for l in out:
    w = l.split()
    if w[0] == "call":
        t = w[1]
        if w[2] == "obs": evs.append("ECallObs %s %s" % (t, z(f2z(w[3]))))
        elif w[2] == "collect": evs.append("ECallCollect %s" % t)
        else: evs.append("ECallBatch %s [%s]" % (t, ";".join(z(f2z(b)) for b in w[3].split(","))))
    elif w[0] == "ret":
        if len(w) == 2: evs.append("ERetUnit %s" % w[1])
        else: evs.append("ERetSnap %s %s %s [%s]" % (w[1], z(int(w[2])), z(f2z(w[3])), ";".join(z(int(b)) for b in w[4].split(","))))
    elif w[0] == "ev":
        t = w[1]
        if w[2] == "atomic":
            cell = int(w[3]); before, after = int(w[7]), int(w[8])
            if cell in sum_cells: before, after = f2z(before), f2z(after)
            evs.append("EAt %s %d %s %s %s %s" % (t, cell, K[w[4]], z(before), z(after), "true" if w[9] == "true" else "false"))
        elif w[2] == "lock": evs.append(("ELockAcq %s" if w[5] == "acquired" else "ELockBlocked %s") % t)
        elif w[2] == "unlock": evs.append("EUnlock %s" % t)
if mutate:  # simulate an implementation that publishes before updating the sum: swap two adjacent events of thread 0
    for i, e in enumerate(evs):
        if "KLoad" in e and e.startswith("EAt 0"):
            j = next(k for k in range(i, len(evs)) if "EAt 0 5 KFetchAdd" in evs[k] or "EAt 0 9 KFetchAdd" in evs[k])
            evs.insert(i, evs.pop(j)); break
open("trace.v", "w").write("Require Import HExec.\nFrom Coq Require Import List ZArith.\nImport ListNotations.\nOpen Scope Z_scope.\n"
  "Definition tr : list event := [\n" + ";\n".join(evs) + "].\nEval vm_compute in (length tr, validate [1;2] (init) 0 tr).\n")
r = subprocess.run(["coqc", "-noglob", "-Q", ".", "", "trace.v"], capture_output=True, text=True)
print(len(evs), "events;", (r.stdout + r.stderr).strip().replace("\n", " "))
