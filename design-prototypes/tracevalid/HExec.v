(* Prototype: executable step function of the histogram model and validation of an implementation trace. *)
From Coq Require Import List ZArith Bool Lia Arith.
Import ListNotations.
Open Scope Z_scope.

Inductive kind := KFetchAdd | KLoad | KCasWeak | KSwap.
Definition kind_eqb a b := match a, b with KFetchAdd, KFetchAdd | KLoad, KLoad | KCasWeak, KCasWeak | KSwap, KSwap => true | _, _ => false end.

Inductive event :=
| ECallObs (t : nat) (v : Z) | ECallCollect (t : nat) | ECallBatch (t : nat) (vs : list Z)
| EAt (t : nat) (cell : nat) (k : kind) (before after : Z) (ok : bool)
| ELockAcq (t : nat) | ELockBlocked (t : nat) | EUnlock (t : nat)
| ERetUnit (t : nat) | ERetSnap (t : nat) (cnt sum : Z) (bks : list Z).

Section H.
Variable bounds : list Z.          (* integer-valued bucket bounds *)
Let B := length bounds.

Definition hotbit : Z := 2 ^ 63.
Definition c_sac : nat := 1.
Definition c_bkt (s j : nat) : nat := (2 + s * (B + 2) + j)%nat.
Definition c_sum (s : nat) : nat := (2 + s * (B + 2) + B)%nat.
Definition c_cnt (s : nat) : nat := (2 + s * (B + 2) + B + 1)%nat.

Fixpoint bucket_of (v : Z) (bs : list Z) (j : nat) : option nat :=
  match bs with [] => None | b :: r => if v <=? b then Some j else bucket_of v r (S j) end.
(* bucket vector of a batch: counts per bucket index *)
Fixpoint bump (j : nat) (l : list Z) : list Z := match l, j with [], _ => [] | x :: r, O => (x + 1) :: r | x :: r, S j' => x :: bump j' r end.
Definition batch_vec (vs : list Z) : list Z :=
  fold_left (fun acc v => match bucket_of v bounds O with Some j => bump j acc | None => acc end) vs (repeat 0 B).
Fixpoint nonzero_writes (j : nat) (l : list Z) : list (nat * Z) :=
  match l with [] => [] | x :: r => (if 0 <? x then [(j, x)] else []) ++ nonzero_writes (S j) r end.

Inductive ts :=
| Idle
| OClaim (c : Z) (ws : list (nat * Z)) (sumv : Z)
| OWrites (s : nat) (ws : list (nat * Z)) (sumv c : Z)
| OSumCas (s : nat) (sumv c cur : Z)
| OPublish (s : nat) (c : Z)
| ORet
| CLock | CFlip | CWait (cold : nat) (N : Z) | CSwapSum (cold : nat) (N : Z)
| CBkt (cold : nat) (N sumv : Z) (j : nat) (acc : list Z)
| CBktAdd (cold : nat) (N sumv : Z) (j : nat) (v : Z) (acc : list Z)
| CAddCnt (cold : nat) (N sumv : Z) (acc : list Z)
| CSumLoad (cold : nat) (N sumv : Z) (acc : list Z)
| CSumCas (cold : nat) (N sumv : Z) (acc : list Z) (cur : Z)
| CUnlock (N sumv : Z) (acc : list Z)
| CRet (N sumv : Z) (acc : list Z).

Record st := { mem : nat -> Z; lock : option nat; thr : nat -> ts }.
Definition setm (m : nat -> Z) c v := fun x => if Nat.eqb x c then v else m x.
Definition sett (f : nat -> ts) t x := fun u => if Nat.eqb u t then x else f u.
Definition upd (s : st) m l t x := {| mem := m; lock := l; thr := sett (thr s) t x |}.

Definition cumul (acc_rev : list Z) : list Z :=
  snd (fold_left (fun '(run, out) x => (run + x, out ++ [run + x])) (rev acc_rev) (0, [])).
Fixpoint list_eqb (a b : list Z) : bool :=
  match a, b with [], [] => true | x :: a', y :: b' => (x =? y) && list_eqb a' b' | _, _ => false end.

(* expects an atomic event on cell c of kind k whose "before" equals memory; returns unit test *)
Definition chk (s : st) (cell c : nat) (k k' : kind) (before : Z) : bool :=
  Nat.eqb cell c && kind_eqb k k' && (before =? mem s c).

Definition exec (s : st) (e : event) : option st :=
  match e with
  | ECallObs t v =>
      match thr s t with Idle =>
        let ws := match bucket_of v bounds O with Some j => [(j, 1)] | None => [] end in
        Some (upd s (mem s) (lock s) t (OClaim 1 ws v)) | _ => None end
  | ECallBatch t vs =>
      match thr s t with Idle =>
        Some (upd s (mem s) (lock s) t (OClaim (Z.of_nat (length vs)) (nonzero_writes O (batch_vec vs)) (fold_left Z.add vs 0))) | _ => None end
  | ECallCollect t => match thr s t with Idle => Some (upd s (mem s) (lock s) t CLock) | _ => None end
  | ELockAcq t => match thr s t, lock s with CLock, None => Some (upd s (mem s) (Some t) t CFlip) | _, _ => None end
  | ELockBlocked t => match thr s t, lock s with CLock, Some _ => Some s | _, _ => None end
  | EUnlock t => match thr s t, lock s with
                 | CUnlock N sv acc, Some u => if Nat.eqb u t then Some (upd s (mem s) None t (CRet N sv acc)) else None
                 | _, _ => None end
  | ERetUnit t => match thr s t with ORet => Some (upd s (mem s) (lock s) t Idle) | _ => None end
  | ERetSnap t cnt sum bks =>
      match thr s t with
      | CRet N sv acc => if (cnt =? N) && (sum =? sv) && list_eqb bks (cumul acc) then Some (upd s (mem s) (lock s) t Idle) else None
      | _ => None end
  | EAt t cell k before after ok =>
      match thr s t with
      | OClaim c ws sv =>
          if chk s cell c_sac k KFetchAdd before && (after =? before + c) && ok then
            let sh := if before <? hotbit then O else 1%nat in
            Some (upd s (setm (mem s) cell after) (lock s) t (OWrites sh ws sv c)) else None
      | OWrites sh ((j, d) :: ws) sv c =>
          if chk s cell (c_bkt sh j) k KFetchAdd before && (after =? before + d) && ok then
            Some (upd s (setm (mem s) cell after) (lock s) t (OWrites sh ws sv c)) else None
      | OWrites sh [] sv c =>   (* sum loop: load *)
          if chk s cell (c_sum sh) k KLoad before && (after =? before) then
            Some (upd s (mem s) (lock s) t (OSumCas sh sv c before)) else None
      | OSumCas sh sv c cur =>
          if Nat.eqb cell (c_sum sh) && kind_eqb k KCasWeak && (before =? mem s cell) then
            if ok then (if (before =? cur) && (after =? cur + sv) then Some (upd s (setm (mem s) cell after) (lock s) t (OPublish sh c)) else None)
            else (if after =? before then Some (upd s (mem s) (lock s) t (OWrites sh [] sv c)) else None)
          else None
      | OPublish sh c =>
          if chk s cell (c_cnt sh) k KFetchAdd before && (after =? before + c) && ok then
            Some (upd s (setm (mem s) cell after) (lock s) t ORet) else None
      | CFlip =>
          if chk s cell c_sac k KFetchAdd before && (after =? (before + hotbit) mod 2 ^ 64) && ok then
            let cold := if before <? hotbit then O else 1%nat in
            Some (upd s (setm (mem s) cell after) (lock s) t (CWait cold (before mod hotbit))) else None
      | CWait cold N =>
          if Nat.eqb cell (c_cnt cold) && kind_eqb k KCasWeak && (before =? mem s cell) then
            if ok then (if (before =? N) && (after =? 0) then Some (upd s (setm (mem s) cell 0) (lock s) t (CSwapSum cold N)) else None)
            else (if after =? before then Some s else None)
          else None
      | CSwapSum cold N =>
          if chk s cell (c_sum cold) k KSwap before && (after =? 0) && ok then
            Some (upd s (setm (mem s) cell 0) (lock s) t (if (0 <? B)%nat then CBkt cold N before O [] else CAddCnt cold N before [])) else None
      | CBkt cold N sv j acc =>
          if chk s cell (c_bkt cold j) k KSwap before && (after =? 0) && ok then
            Some (upd s (setm (mem s) cell 0) (lock s) t (CBktAdd cold N sv j before acc)) else None
      | CBktAdd cold N sv j v acc =>
          if chk s cell (c_bkt (1 - cold) j) k KFetchAdd before && (after =? before + v) && ok then
            Some (upd s (setm (mem s) cell after) (lock s) t (if (S j <? B)%nat then CBkt cold N sv (S j) (v :: acc) else CAddCnt cold N sv (v :: acc))) else None
      | CAddCnt cold N sv acc =>
          if chk s cell (c_cnt (1 - cold)) k KFetchAdd before && (after =? before + N) && ok then
            Some (upd s (setm (mem s) cell after) (lock s) t (CSumLoad cold N sv acc)) else None
      | CSumLoad cold N sv acc =>
          if chk s cell (c_sum (1 - cold)) k KLoad before && (after =? before) then
            Some (upd s (mem s) (lock s) t (CSumCas cold N sv acc before)) else None
      | CSumCas cold N sv acc cur =>
          if Nat.eqb cell (c_sum (1 - cold)) && kind_eqb k KCasWeak && (before =? mem s cell) then
            if ok then (if (before =? cur) && (after =? cur + sv) then Some (upd s (setm (mem s) cell after) (lock s) t (CUnlock N sv acc)) else None)
            else (if after =? before then Some (upd s (mem s) (lock s) t (CSumLoad cold N sv acc)) else None)
          else None
      | _ => None
      end
  end.

Definition init : st := {| mem := fun _ => 0; lock := None; thr := fun _ => Idle |}.

(* validate a trace: index of the first rejected event, or None if all accepted *)
Fixpoint validate (s : st) (i : nat) (es : list event) : option nat :=
  match es with
  | [] => None
  | e :: r => match exec s e with Some s' => validate s' (S i) r | None => Some i end
  end.
End H.
