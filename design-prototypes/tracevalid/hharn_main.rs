// Prototype: run observe/collect threads on a real Histogram one atomic step at a time; print the trace.
use prometheus::core::Metric;
use prometheus::verif_sync::{self, Hook, Outcome, Point};
use prometheus::*;
use std::sync::{Arc, Condvar, Mutex};

struct Sched { st: Mutex<State>, cv: Condvar }
struct State { turn: Option<usize>, waiting: Vec<bool>, done: Vec<bool>, blocked_on: Vec<Option<u64>>, log: Vec<String> }
struct WorkerHook { s: Arc<Sched>, me: usize }
impl WorkerHook {
    fn park(&self) {
        let mut g = self.s.st.lock().unwrap();
        g.waiting[self.me] = true; self.s.cv.notify_all();
        while g.turn != Some(self.me) { g = self.s.cv.wait(g).unwrap(); }
        g.waiting[self.me] = false;
    }
    fn emit(&self, line: String, blocked: Option<Option<u64>>) {
        let mut g = self.s.st.lock().unwrap();
        g.log.push(line);
        if let Some(b) = blocked { g.blocked_on[self.me] = b; }
        g.turn = None; self.s.cv.notify_all();
    }
    fn marker(&self, line: String) { self.park(); self.emit(line, None); }
}
impl Hook for WorkerHook {
    fn before(&self, _p: &Point) -> bool { self.park(); false }
    fn after(&self, p: &Point, o: Outcome) {
        let (line, b) = match (p, &o) {
            (Point::Atomic { cell, kind, ord, ord2, .. }, Outcome::Atomic { before, after, ok }) =>
                (format!("ev {} atomic {} {} {:?} {:?} {} {} {}", self.me, cell, kind, ord, ord2, before, after, ok), None),
            (Point::LockTry { cell, kind }, Outcome::Acquired) => (format!("ev {} lock {} {} acquired", self.me, cell, kind), Some(None)),
            (Point::LockTry { cell, kind }, Outcome::Blocked) => (format!("ev {} lock {} {} blocked", self.me, cell, kind), Some(Some(*cell))),
            (Point::LockRelease { cell, kind }, _) => {
                let mut g = self.s.st.lock().unwrap();
                for b in g.blocked_on.iter_mut() { if *b == Some(*cell) { *b = None; } }
                drop(g);
                (format!("ev {} unlock {} {}", self.me, cell, kind), None) }
            _ => (format!("ev {} ?", self.me), None),
        };
        self.emit(line, b);
    }
}
#[derive(Clone)] enum Op { Obs(f64), Collect, Batch(Vec<f64>) }
fn main() {
    // usage: hharn "<t0 ops>;<t1 ops>;..." "<schedule digits>"   ops: o<val> | c | b<v>,<v>
    let args: Vec<String> = std::env::args().collect();
    let progs: Vec<Vec<Op>> = args[1].split(';').map(|p| p.split_whitespace().map(|w| {
        if w == "c" { Op::Collect } else if let Some(v) = w.strip_prefix('o') { Op::Obs(v.parse().unwrap()) }
        else { Op::Batch(w[1..].split(',').map(|x| x.parse().unwrap()).collect()) } }).collect()).collect();
    let schedule: Vec<usize> = args[2].chars().map(|c| c.to_digit(10).unwrap() as usize).collect();
    verif_sync::reset_ids();
    let h = Histogram::with_opts(HistogramOpts::new("h", "h").buckets(vec![1.0, 2.0])).unwrap();
    let n = progs.len();
    let s = Arc::new(Sched { st: Mutex::new(State { turn: None, waiting: vec![false; n], done: vec![false; n], blocked_on: vec![None; n], log: vec![] }), cv: Condvar::new() });
    let mut hs = vec![];
    for (i, prog) in progs.into_iter().enumerate() {
        let h = h.clone(); let s2 = s.clone();
        hs.push(std::thread::spawn(move || {
            let hook = Arc::new(WorkerHook { s: s2.clone(), me: i });
            verif_sync::install(hook.clone());
            for op in prog {
                match op {
                    Op::Obs(v) => { hook.marker(format!("call {} obs {}", i, v.to_bits())); h.observe(v); hook.marker(format!("ret {}", i)); }
                    Op::Batch(vs) => { let l = h.local(); for v in &vs { l.observe(*v); } hook.marker(format!("call {} batch {}", i, vs.iter().map(|v| v.to_bits().to_string()).collect::<Vec<_>>().join(","))); l.flush(); hook.marker(format!("ret {}", i)); }
                    Op::Collect => { hook.marker(format!("call {} collect", i)); let m = h.metric(); let hh = m.get_histogram();
                        hook.marker(format!("ret {} {} {} {}", i, hh.get_sample_count(), hh.get_sample_sum().to_bits(), hh.get_bucket().iter().map(|b| b.cumulative_count().to_string()).collect::<Vec<_>>().join(","))); }
                }
            }
            verif_sync::uninstall();
            let mut g = s2.st.lock().unwrap(); g.done[i] = true; s2.cv.notify_all();
        }));
    }
    let mut sched_iter = schedule.into_iter();
    loop {
        let mut g = s.st.lock().unwrap();
        // wait until every live thread is parked
        while !(0..n).all(|i| g.waiting[i] || g.done[i]) { g = s.cv.wait(g).unwrap(); }
        if g.done.iter().all(|d| *d) { break; }
        let want = sched_iter.next();
        let enabled = |g: &State, i: usize| g.waiting[i] && !g.done[i] && g.blocked_on[i].is_none();
        let t = match want { Some(t) if t < n && enabled(&g, t) => t, _ => (0..n).find(|&i| enabled(&g, i)).unwrap() };
        g.log.push(format!("grant {}", t));
        g.turn = Some(t); s.cv.notify_all();
        while g.turn.is_some() { g = s.cv.wait(g).unwrap(); }
    }
    for h in hs { h.join().unwrap(); }
    for l in &s.st.lock().unwrap().log { if !l.starts_with("grant") { println!("{}", l); } }
}
